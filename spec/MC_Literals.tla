----------------------------- MODULE MC_Literals -----------------------------
(* Mode G for C14: every (value, spelling form) case over
     integers  : boundary values x every radix 2..36 x separator placements, and decimal with separators
     fractions : exact binary fractions n / 2^f spelled as decimals (no rounding involved)
     text      : all character sequences up to LEN over an alphabet with ASCII, blank, line break, tab, CR, NUL, both
                 quotes, backslash and 2-, 3-, 4-byte characters, x {1, 3, 4 quotes} x {raw, escapes, \u{...}}
     bytes     : all byte vectors up to LEN over {0, 10, 39, 92, 97, 255} in character form, and numeric form (decimal, binary, hex)
     symbols   : names with letters, digits, underscore, non-ASCII letters
   One state per case; Emit prints the spelling (code points) and the value it must denote. *)
EXTENDS Literals, Json, FiniteSets, SequencesExt
CONSTANT LEN
IntValues == {0, 1, 7, 9, 10, 35, 36, 255, 256, 1295, 1296, 65535, 1000000, 2147483646, 2147483647}
TextAlphabet == {97, 32, 10, 9, 13, 0, 34, 39, 92, 233, 8364, 128512}
ByteAlphabet == {0, 10, 39, 92, 97, 255}
RECURSIVE SeqsUpTo(_, _)
SeqsUpTo(A, n) == IF n = 0 THEN {<<>>} ELSE LET S == SeqsUpTo(A, n - 1) IN S \cup { Append(s, a) : s \in { x \in S : Len(x) = n - 1 }, a \in A }
Names == {<<97>>, <<97, 98>>, <<97, 95, 98>>, <<97, 49>>, <<233>>, <<97, 233, 98>>, <<95, 97>>}
VARIABLE k      \* the case: a record [kind, src, ...expected...]
IntCases == { [kind |-> "int", src |-> SpellRadix(v, R, s), v |-> v] : v \in IntValues, R \in 2..36, s \in {0, 1, 4} }
            \cup { [kind |-> "int", src |-> SpellDecimal(v, s), v |-> v] : v \in IntValues, s \in {0, 1, 3} }
\* integers beyond the 32-bit range are floats (they are exactly representable: powers of two times small odd numbers)
BigCases == { [kind |-> "frac", src |-> <<50,49,52,55,52,56,51,54,52,56>>, m |-> 1, e |-> 31],                       \* 2147483648
              [kind |-> "frac", src |-> <<52,50,57,52,57,54,55,50,57,54>>, m |-> 1, e |-> 32],                       \* 4294967296
              [kind |-> "frac", src |-> <<49,48,48,48,48,48,48,48,48,48,48>>, m |-> 9765625, e |-> 10],             \* 10000000000
              [kind |-> "frac", src |-> <<50,95,49,52,55,95,52,56,51,95,54,52,56>>, m |-> 1, e |-> 31] }            \* 2_147_483_648
FracCases == { [kind |-> "frac", src |-> SpellFraction(n, f), m |-> n, e |-> -f] : n \in {1, 3, 5, 17, 255, 1025, 123457}, f \in 1..6 }
TextCases == { [kind |-> "text", src |-> SpellText(x[1], x[2], x[3]), chars |-> TextValue(x[1], x[2], x[3])] :
                 x \in { y \in SeqsUpTo(TextAlphabet, LEN) \X {"raw", "esc", "uni"} \X {1, 3, 4} : y[1] # <<>> \/ y[3] = 1 } }
               \* the empty text is spelled "" (a run of only quotes is ambiguous by design)
\* quotes INSIDE a text that is delimited by 3 or 4 quotes may stand raw as long as fewer than the delimiting number stand together
\* (line breaks and blanks between them do not join them)
RawQuoteTexts == { <<97, 34, 98>>, <<97, 34, 34, 98>>, <<97, 34, 10, 34, 34, 98>>, <<97, 34, 34, 10, 34, 98>>, <<97, 34, 32, 34, 34, 98>>, <<97, 34, 10, 34, 10, 34, 98>>,
                   <<97, 34, 9, 34, 34, 98>>, <<97, 10, 34, 34, 10, 34, 98>>, <<97, 34, 34, 34, 98>>, <<97, 34, 34, 10, 34, 34, 98>> }
RECURSIVE MaxRun(_, _, _)
MaxRun(cs, cur, best) == IF cs = <<>> THEN (IF cur > best THEN cur ELSE best)
                         ELSE IF cs[1] = 34 THEN MaxRun(Tail(cs), cur + 1, best) ELSE MaxRun(Tail(cs), 0, IF cur > best THEN cur ELSE best)
RawQuoteCases == { [kind |-> "text", src |-> Quotes(DQ, nq) \o cs \o Quotes(DQ, nq), chars |-> cs] : cs \in { x \in RawQuoteTexts : TRUE }, nq \in {3, 4} }
\* the single-quote byte has no character-form spelling that lexes (the lexer ends the token at every quote), it is spelled numerically
ByteCases == { [kind |-> "bytes", src |-> SpellBytesChars(bs, enc), bytes |-> bs] : bs \in { x \in SeqsUpTo(ByteAlphabet, LEN) \ {<<>>} : 39 \notin Range(x) }, enc \in {"raw", "esc"} }
             \cup { [kind |-> "bytes", src |-> SpellBytesNums(bs, R), bytes |-> bs] : bs \in SeqsUpTo(ByteAlphabet, LEN) \ {<<>>}, R \in {10, 2, 8} }     \* the numeric form takes digits only (no letter digits)
             \cup { [kind |-> "bytes", src |-> <<39, 39>>, bytes |-> <<>>] }
SymCases == { [kind |-> "sym", src |-> SpellSymbol(nm), name |-> nm] : nm \in Names }
Init == k \in IntCases \cup BigCases \cup FracCases \cup TextCases \cup { c \in RawQuoteCases : MaxRun(c.chars, 0, 0) < Len(c.src) - Len(c.chars) - (Len(c.src) - Len(c.chars)) \div 2 } \cup ByteCases \cup SymCases
Next == UNCHANGED k
Spec == Init /\ [][Next]_k
Emit == PrintT(<<"REPLAY", ToJson(k)>>)
==============================================================================
