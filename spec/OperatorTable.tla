----------------------------- MODULE OperatorTable -----------------------------
(* The language's operator table: for every operator its parser Definition, precedence number (smaller binds tighter),
   fixity and associativity - a FROZEN transcription of make_priority_map / get_definition in
   compiler/src/parse/parser.rs at the pinned commit.  The table is data of the specification, independent of the code
   at check time.  (docs/src/precedence.md disagrees with the code's map in places - prefix/infix/suffix apply, `~#`
   and the arithmetic prefixes, `<~`, pair associativity; the property statement follows the map, so the map is the
   table here and the discrepancies are documentation findings, DESIGN.md 4.2.) *)
EXTENDS Integers, Sequences
Op(d, p, fix, r2l, txt) == [d |-> d, p |-> p, fix |-> fix, r2l |-> r2l, txt |-> txt]
Operators == {
  Op("Access", 30, "bin", FALSE, "."),
  Op("EmptyApply", 40, "suf", FALSE, "~~"),
  Op("AccessLeftInternal", 50, "pre", FALSE, "_."),
  Op("AccessRightInternal", 60, "suf", FALSE, "._"), Op("AccessLengthInternal", 60, "suf", FALSE, ".|"),
  Op("TypeOf", 69, "pre", FALSE, "#"), Op("TypeCast", 70, "bin", FALSE, "~#"),
  Op("AbsoluteValue", 75, "pre", FALSE, "++"), Op("Opposite", 75, "pre", FALSE, "--"), Op("BitwiseNot", 75, "pre", FALSE, "!"),
  Op("ExponentialSign", 80, "bin", FALSE, "**"),
  Op("MultiplicationSign", 90, "bin", FALSE, "*"), Op("Division", 90, "bin", FALSE, "/"), Op("IntegerDivision", 90, "bin", FALSE, "//"), Op("Remainder", 90, "bin", FALSE, "%"),
  Op("Addition", 100, "bin", FALSE, "+"), Op("Subtraction", 100, "bin", FALSE, "-"),
  Op("BitwiseLeftShift", 110, "bin", FALSE, "<<"), Op("BitwiseRightShift", 110, "bin", FALSE, ">>"),
  Op("BitwiseAnd", 111, "bin", FALSE, "&"), Op("BitwiseXor", 112, "bin", FALSE, "^"), Op("BitwiseOr", 113, "bin", FALSE, "|"),
  Op("PrefixApply", 150, "pre", FALSE, "f`"), Op("SuffixApply", 151, "suf", FALSE, "`f"), Op("InfixApply", 152, "bin", FALSE, "`f`"),
  Op("Range", 200, "bin", FALSE, ".."), Op("StartExclusiveRange", 200, "bin", FALSE, ">.."), Op("EndExclusiveRange", 200, "bin", FALSE, "..<"), Op("ExclusiveRange", 200, "bin", FALSE, ">..<"),
  Op("Pair", 210, "bin", TRUE, "="),
  Op("List", 220, "list", FALSE, ""),
  Op("PartialApply", 230, "bin", FALSE, "~"),
  Op("Concatenation", 240, "bin", FALSE, "<>"),
  Op("LessThan", 300, "bin", FALSE, "<"), Op("LessThanOrEqual", 300, "bin", FALSE, "<="), Op("GreaterThan", 300, "bin", FALSE, ">"), Op("GreaterThanOrEqual", 300, "bin", FALSE, ">="),
  Op("TypeEqual", 400, "bin", FALSE, "#="), Op("Inequality", 400, "bin", FALSE, "!="), Op("Equality", 400, "bin", FALSE, "=="),
  Op("Not", 400, "pre", FALSE, "!!"), Op("Tis", 400, "pre", FALSE, "??"),
  Op("And", 410, "bin", FALSE, "&&"), Op("Xor", 420, "bin", FALSE, "^^"), Op("Or", 430, "bin", FALSE, "||"),
  Op("Apply", 550, "bin", FALSE, "<~"), Op("ApplyTo", 550, "bin", FALSE, "~>"),
  Op("Reapply", 600, "pre", FALSE, "^~"),
  Op("JumpIfTrue", 700, "bin", FALSE, "?>"), Op("JumpIfFalse", 700, "bin", FALSE, "!>"),
  Op("ElseJump", 800, "bin", FALSE, "|>"),
  Op("CommaList", 900, "bin", FALSE, ",") }
ValuePriority == 10
GroupPriority == 20
ListOp == CHOOSE o \in Operators : o.d = "List"
Binary == { o \in Operators : o.fix = "bin" }
Prefix == { o \in Operators : o.fix = "pre" }
Suffix == { o \in Operators : o.fix = "suf" }
Levels == { o.p : o \in Operators }
\* one representative operator per (priority level, fixity, associativity)
Representatives == { CHOOSE o \in Operators : o.p = x[1] /\ o.fix = x[2] : x \in { <<o.p, o.fix>> : o \in Operators } }
==============================================================================
