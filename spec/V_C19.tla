-------------------------------- MODULE V_C19 --------------------------------
(* Mode V for C19: each observation is a script of mutator operations carried out on a real BasicGarnishData with
   compactions (`optimize`) and `clone_data` calls in between (scripts come from the collector model Optimize.tla, from
   seeded random value graphs, and from compactions injected into running programs).  Before and after every
   compaction the harness reads back, through the GarnishData getters only, everything the property names: operand
   stack, input-value stack, frame chain, symbol names, the retained prefix (same addresses) and the extra roots (through
   the mapping optimize returned).  TLC checks that every compaction returned Ok and that the two read-backs are
   structurally identical, and that a clone is structurally identical to its original, which is left intact. *)
EXTENDS Values, TLC, Json, IOUtils
Obs == ndJsonDeserialize(IOEnv.OBS)
VARIABLE c
Init == c \in DOMAIN Obs
Next == UNCHANGED c
Spec == Init /\ [][Next]_c
Has(o, f) == f \in DOMAIN o
SameSeq(a, b) == Len(a) = Len(b) /\ \A i \in DOMAIN a : Ident(a[i], b[i])
SameRet(a, b) == Len(a) = Len(b) /\ \A i \in DOMAIN a : a[i].id = b[i].id /\ Ident(a[i].v, b[i].v)
GcFails(ev) ==
  IF ev.status # "ok" THEN <<"optimize did not return Ok (" \o ev.status \o ": " \o ev.msgk \o ")">>
  ELSE LET b == ev.before  a == ev.after IN
       (IF SameSeq(b.regs, a.regs) THEN <<>> ELSE <<"a value reachable from the operand stack changed">>)
       \o (IF SameSeq(b.vals, a.vals) /\ Ident(b.cur, a.cur) THEN <<>> ELSE <<"a value reachable from the input-value stack changed">>)
       \o (IF b.frames = a.frames THEN <<>> ELSE <<"the frame chain changed">>)
       \o (IF SameRet(b.retained, a.retained) THEN <<>> ELSE <<"a value of the retained prefix changed or moved">>)
       \o (IF ev.mapped_len = Len(b.roots) /\ SameSeq(b.roots, a.roots) THEN <<>> ELSE <<"an extra root does not read back the same at the address the mapping reports">>)
       \o (IF b.syms = a.syms /\ \A i \in DOMAIN a.syms : a.syms[i].r = "same" THEN <<>> ELSE <<"a symbol name is lost or changed">>)
       \o (IF ev.size_after <= ev.size_before THEN <<>> ELSE <<"the data grew during a compaction">>)
Bad(v) == v.t \in {"bad", "deep"}
CloneFails(ev) ==
  IF ev.status # "ok" THEN <<"clone_data did not return Ok (" \o ev.status \o ": " \o ev.msgk \o ")">>
  ELSE (IF Ident(ev.before, ev.copy) THEN <<>> ELSE <<"the clone is not structurally identical to its original">>)
       \o (IF Ident(ev.before, ev.original_after) THEN <<>> ELSE <<"clone_data changed the original">>)
RECURSIVE Cat(_, _)
Cat(f, k) == IF k = 0 THEN <<>> ELSE Cat(f, k - 1) \o f[k]
Fails(o) ==
  IF Has(o, "outcome") THEN <<"the worker did not return: " \o o.outcome>>
  ELSE IF o.status = "panic" THEN <<"panic: " \o o.msgk>>
  ELSE IF o.status # "ok" THEN <<>>        \* the script could not be carried out (a generator matter, counted by the driver)
  ELSE Cat([k \in DOMAIN o.events |-> IF o.events[k].ev = "gc" THEN GcFails(o.events[k]) ELSE CloneFails(o.events[k])], Len(o.events))
Report == Fails(Obs[c]) = <<>> \/ PrintT(<<"FAIL", ToJson([c |-> c, fails |-> Fails(Obs[c])])>>)
Stat == (~Has(Obs[c], "outcome") /\ Obs[c].status = "ok" /\ Len(Obs[c].events) > 0) => PrintT(<<"STAT", ToJson([c |-> c, accepted |-> TRUE])>>)
==============================================================================
