SPECIFICATION Spec
CONSTANTS N = 5
  ALPHA = {"n1", "n2", "f2", "f05", "add", "sub", "mul", "div", "idiv", "bor", "bxor", "band", "neg", "seq"}
INVARIANT Emit
CHECK_DEADLOCK FALSE
