SPECIFICATION Spec
CONSTANTS N = 6
  ALPHA = {"val", "n0", "n1", "n2", "strab", "strs", "cast", "tyof", "rng", "app", "acc", "cat", "lst"}
INVARIANT Emit
CHECK_DEADLOCK FALSE
