-------------------------------- MODULE V_C20 --------------------------------
(* Mode V for C20: each observation is one schedule of Build / Exec events (MC_MultiBuild) carried out on one real data
   object per implementation, with K generated programs.  The abstract data object of MultiBuild.tla is stepped along
   the observed events (the observed table lengths bind its nondeterministic sizes) and TLC checks
     conformance   every observed step is a step of the model: a build starts at the current table lengths, an
                   execution adds no instruction and no jump entry, tables only grow, segments stay apart;
     own pieces    jump operands, expression values, the reported entry and the jump entries written by a build lie
                   inside the build's own segments; data operands name existing values;
     untouched     after EVERY later event the instructions (with their constants read back) and jump entries of
                   every earlier program equal the dump taken when it was built;
     same result   every execution from the reported entry ends like the program built alone into a fresh object. *)
EXTENDS MultiBuild, Values, TLC, Json, IOUtils
Obs == ndJsonDeserialize(IOEnv.OBS)
VARIABLE c
Init == c \in DOMAIN Obs
Next == UNCHANGED c
Spec == Init /\ [][Next]_c
Has(o, f) == f \in DOMAIN o
JumpOps == {"JumpTo", "JumpIfTrue", "JumpIfFalse", "And", "Or", "Reapply"}

Start(ev) == [ilen |-> ev.ibase, jlen |-> ev.jbase, dlen |-> ev.dbase, segs |-> <<>>]
StepOf(s, ev) == IF ev.ev = "B" THEN BuildStep(s, ev.p, ev.iend - ev.ibase, ev.jend - ev.jbase, ev.dend - ev.dbase)
                 ELSE ExecStep(s, ev.p, ev.dlen - s.dlen)
RECURSIVE StateAfter(_, _)
StateAfter(evs, k) == IF k = 0 THEN Start(evs[1]) ELSE StepOf(StateAfter(evs, k - 1), evs[k])
DumpOf(ev, p) == LET ks == { k \in DOMAIN ev.segs : ev.segs[k].p = p } IN ev.segs[CHOOSE k \in ks : TRUE]
BuildEvent(evs, p) == evs[CHOOSE k \in DOMAIN evs : evs[k].ev = "B" /\ evs[k].p = p]

Conforms(evs, k) ==
  LET s == StateAfter(evs, k - 1)  ev == evs[k]  t == StepOf(s, ev) IN
  IF ev.ev = "B"
  THEN (IF ev.ibase = s.ilen /\ ev.jbase = s.jlen /\ ev.dbase = s.dlen THEN <<>> ELSE <<"a build does not start at the current table lengths">>)
       \o (IF t.ilen = ev.ilen /\ t.jlen = ev.jlen /\ t.dlen = ev.dlen THEN <<>> ELSE <<"table lengths after a build differ from the segment the build reported">>)
       \o (IF SegsOK(t) /\ Extends(s, t) THEN <<>> ELSE <<"segments overlap, are empty or leave their table">>)
  ELSE (IF ev.ilen = s.ilen /\ ev.jlen = s.jlen THEN <<>> ELSE <<"an execution changed the instruction or jump table length">>)
       \o (IF ev.dlen >= s.dlen THEN <<>> ELSE <<"the data table shrank during an execution">>)

OwnPieces(ev) ==
  LET d == DumpOf(ev, ev.p)
      badJump == { i \in DOMAIN d.ins : d.ins[i].op \in JumpOps /\ (d.ins[i].d < ev.jbase \/ d.ins[i].d >= ev.jend) }
      badExpr == { i \in DOMAIN d.ins : d.ins[i].op = "Put" /\ d.ins[i].c.t = "expr" /\ (d.ins[i].c.j < ev.jbase \/ d.ins[i].c.j >= ev.jend) }
      badData == { i \in DOMAIN d.ins : d.ins[i].op \in {"Put", "Resolve"} /\ (d.ins[i].d < 0 \/ d.ins[i].d >= ev.dend \/ d.ins[i].c.t = "bad") }
      badEntry == { j \in DOMAIN d.jumps : d.jumps[j] < ev.ibase \/ d.jumps[j] >= ev.iend } IN
  (IF badJump = {} THEN <<>> ELSE <<"a jump operand leaves the build's own jump-table segment">>)
  \o (IF badExpr = {} THEN <<>> ELSE <<"an expression value names a jump entry outside the build's own segment">>)
  \o (IF badData = {} THEN <<>> ELSE <<"a data operand names no existing value">>)
  \o (IF badEntry = {} THEN <<>> ELSE <<"a jump entry written by the build points outside the build's own instructions">>)
  \o (IF ev.entry >= ev.jbase /\ ev.entry < ev.jend /\ ev.start >= ev.ibase /\ ev.start < ev.iend THEN <<>> ELSE <<"the reported entry lies outside the build's own segments">>)

Untouched(evs, k) ==
  LET ev == evs[k]
      SameIns(x, y) == Len(x) = Len(y) /\ \A i \in DOMAIN x : x[i].op = y[i].op /\ x[i].d = y[i].d /\ Ident(x[i].c, y[i].c)
      SameDump(x, y) == x.jumps = y.jumps /\ SameIns(x.ins, y.ins)
      moved == { m \in DOMAIN ev.segs : LET b == BuildEvent(evs, ev.segs[m].p) IN ~SameDump(DumpOf(b, ev.segs[m].p), ev.segs[m]) } IN
  IF moved = {} THEN <<>>
  ELSE LET m == CHOOSE m \in moved : TRUE
           b == DumpOf(BuildEvent(evs, ev.segs[m].p), ev.segs[m].p) IN
       IF b.jumps # ev.segs[m].jumps THEN <<"jump entries of an earlier program changed">>
       ELSE IF [i \in DOMAIN b.ins |-> <<b.ins[i].op, b.ins[i].d>>] # [i \in DOMAIN ev.segs[m].ins |-> <<ev.segs[m].ins[i].op, ev.segs[m].ins[i].d>>]
            THEN <<"instructions of an earlier program changed">> ELSE <<"a constant of an earlier program changed">>

SameOutcome(ev, al) == /\ ev.status = al.status
                       /\ (ev.status = "ok" => SameVal(ev.value, al.value))
                       /\ (ev.status # "ok" => ev.msgk = al.msgk)
SameResult(r, ev) == IF ev.ev # "X" \/ ev.status = "skipped" THEN <<>>
                     ELSE IF SameOutcome(ev, r.alone[ev.p + 1]) THEN <<>>
                     ELSE <<IF ev.status = "ok" THEN "a program computes a different value than when built alone" ELSE "a program that completes alone does not complete in the shared object: " \o ev.status>>

BuildsOK(r) == \A k \in DOMAIN r.events : r.events[k].ev = "B" => r.events[k].status = "ok"
RECURSIVE Cat(_, _)
Cat(f, k) == IF k = 0 THEN <<>> ELSE Cat(f, k - 1) \o f[k]
RunFails(o, r) ==
  IF ~BuildsOK(r) THEN <<>>          \* a program the pipeline rejects is none of C20's business
  ELSE LET per == [k \in DOMAIN r.events |->
                     Conforms(r.events, k) \o (IF r.events[k].ev = "B" THEN OwnPieces(r.events[k]) ELSE <<>>) \o Untouched(r.events, k) \o SameResult(r, r.events[k])]
           ws == Cat(per, Len(per)) IN
       [i \in DOMAIN ws |-> [prop |-> "C20", store |-> r.store, why |-> ws[i]]]
Fails(o) == IF Has(o, "outcome") THEN <<[prop |-> "C20", store |-> "both", why |-> "the worker did not return: " \o o.outcome]>>
            ELSE RunFails(o, o.runs[1]) \o RunFails(o, o.runs[2])
Srcs(o) == [i \in DOMAIN o.progs |-> o.progs[i].src]
Report == Fails(Obs[c]) = <<>> \/ PrintT(<<"FAIL", ToJson([c |-> c, srcs |-> IF Has(Obs[c], "progs") THEN Srcs(Obs[c]) ELSE <<>>, fails |-> Fails(Obs[c])])>>)
Executed(r) == \E k \in DOMAIN r.events : r.events[k].ev = "X" /\ r.events[k].status = "ok"
Stat == (~Has(Obs[c], "outcome") /\ BuildsOK(Obs[c].runs[1]) /\ BuildsOK(Obs[c].runs[2]) /\ Executed(Obs[c].runs[1]) /\ Executed(Obs[c].runs[2]))
          => PrintT(<<"STAT", ToJson([c |-> c, accepted |-> TRUE])>>)
==============================================================================
