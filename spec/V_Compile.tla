------------------------------ MODULE V_Compile ------------------------------
(* Mode V for the compile pipeline (C03, C04, C05): each observation is one input pushed through the real lex, parse and
   build (into both data implementations, after a small prefix of earlier content so that table offsets are not zero).
     C03  every stage returns Ok or Err: no panic, no abort, no hang; the deterministic step counters stay polynomial:
          parent-walk iterations <= 4 n^2 + 64 (n tokens), builder work-stack pops <= 16 m + 64 (m parse nodes);
     C04  (accepted inputs) the node table is a proper binary tree, its in-order walk visits every significant token
          exactly once in source order, and every value / operator node owns at least one emitted instruction;
     C05  (accepted inputs) operands, jump operands, expression values and jump-table entries written by the build are
          valid, every straight-line run ends in EndExpression / JumpTo, one metadata record per instruction. *)
EXTENDS Integers, Sequences, FiniteSets, TLC, Json, IOUtils, KnownFindingsLex
Obs == ndJsonDeserialize(IOEnv.OBS)
VARIABLE c
Init == c \in DOMAIN Obs
Next == UNCHANGED c
Spec == Init /\ [][Next]_c
Has(o, f) == f \in DOMAIN o
Range(s) == { s[i] : i \in DOMAIN s }

(* ---------------------------------------------------------------- C03 *)
\* the quadratic bound walk <= ~4 n^2 is written as walk / (n+1) <= 4n + 64 so that TLC's 32-bit integers cannot overflow
C03(o) ==
  IF Has(o, "outcome") THEN <<"the worker did not return: " \o o.outcome>>
  ELSE IF o.status = "panic" THEN <<o.stage \o " panicked">>
  ELSE (IF Has(o, "walk") /\ o.walk \div (o.ntoks + 1) > 4 * o.ntoks + 64 THEN <<"parser parent walk is not polynomially bounded">> ELSE <<>>)
    \o (IF Has(o, "builds") /\ \E i \in DOMAIN o.builds : Has(o.builds[i], "pops") /\ o.builds[i].pops > 16 * o.nnodes + 64 THEN <<"builder work is not linearly bounded">> ELSE <<>>)

(* ---------------------------------------------------------------- C04: the tree *)
N(o) == Len(o.nodes)
Node(o, i) == o.nodes[i + 1]
InRange(o, i) == i >= 0 /\ i < N(o)
\* A separator directly before a closing bracket is redundant: the parser's end-of-group fix-up unlinks its node (the node stays
\* in the table with stale links, referenced by nobody).  Such a node is not part of the tree the property speaks about.
Blank == {"Whitespace", "Annotation", "LineAnnotation"}
Closers == {"EndGroup", "EndExpression", "EndSideEffect"}
TokOf(o, i) == { k \in DOMAIN o.toks : o.toks[k].row = Node(o, i).row /\ o.toks[k].col = Node(o, i).col }
ClosesNext(o, k) == LET later == { j \in DOMAIN o.toks : j > k /\ o.toks[j].ty \notin Blank \cup {"Subexpression", "ExpressionSeparator"} } IN
                    later = {} \/ o.toks[CHOOSE j \in later : \A j2 \in later : j <= j2].ty \in Closers
UnlinkedSeparator(o, i) == /\ Node(o, i).d \in {"Subexpression", "ExpressionSeparator"}
                           /\ i # o.root
                           /\ \A j \in 0..(N(o) - 1) : Node(o, j).l # i /\ Node(o, j).r # i
                           /\ \E k \in TokOf(o, i) : ClosesNext(o, k)
Live(o) == { i \in 0..(N(o) - 1) : Node(o, i).d # "Drop" /\ ~UnlinkedSeparator(o, i) }
ChildLinksOK(o) == \A i \in Live(o) :
   /\ (Node(o, i).l >= 0 => InRange(o, Node(o, i).l) /\ Node(o, Node(o, i).l).p = i)
   /\ (Node(o, i).r >= 0 => InRange(o, Node(o, i).r) /\ Node(o, Node(o, i).r).p = i)
   /\ (Node(o, i).l >= 0 => Node(o, i).l # Node(o, i).r)
ParentLinksOK(o) == \A i \in Live(o) : Node(o, i).p >= 0 => (InRange(o, Node(o, i).p) /\ (Node(o, Node(o, i).p).l = i \/ Node(o, Node(o, i).p).r = i))
RECURSIVE InOrder(_, _, _)
\* in-order walk with fuel (a cycle exhausts it): sequence of node indexes, <<-1>> appended when fuel ran out
InOrder(o, i, fuel) == IF i < 0 \/ ~InRange(o, i) THEN <<>>
                       ELSE IF fuel = 0 THEN <<-1>>
                       ELSE InOrder(o, Node(o, i).l, fuel - 1) \o <<i>> \o InOrder(o, Node(o, i).r, fuel - 1)
Walk(o) == InOrder(o, o.root, N(o) + 1)
Pos(o, i) == <<Node(o, i).row, Node(o, i).col>>
Before(p, q) == p[1] < q[1] \/ (p[1] = q[1] /\ p[2] < q[2])
Synthetic(o, i) == Node(o, i).d \in {"List"}        \* nodes the parser invents: they carry a neighbour's token
Trivia == {"Whitespace", "Annotation", "LineAnnotation", "EndGroup", "EndExpression", "EndSideEffect"}
Separators == {"Subexpression", "ExpressionSeparator"}
SigTokens(o) == { k \in DOMAIN o.toks : o.toks[k].ty \notin Trivia /\ o.toks[k].ty \notin Separators }
C04Tree(o) ==
  LET w == Walk(o)
      real == SelectSeq(w, LAMBDA i : i >= 0 /\ ~Synthetic(o, i))
      visitedPos == { Pos(o, real[k]) : k \in DOMAIN real } IN
  IF ~ChildLinksOK(o) THEN <<"a child link is out of range or its child does not name the node as parent">>
  ELSE IF ~ParentLinksOK(o) THEN <<"a parent link names a node that does not list the child">>
  ELSE IF -1 \in Range(w) THEN <<"the tree contains a cycle">>
  ELSE IF Cardinality(Range(w)) # Len(w) THEN <<"a node is shared (visited twice)">>
  ELSE IF Live(o) \ Range(w) # {} THEN <<"a live node is not reachable from the root">>
  ELSE IF \E k \in 1..(Len(real) - 1) : ~Before(Pos(o, real[k]), Pos(o, real[k + 1])) THEN <<"the in-order walk is not in source order">>
  ELSE IF \E k \in SigTokens(o) : <<o.toks[k].row, o.toks[k].col>> \notin visitedPos THEN <<"a significant token is visited by no node">>
  ELSE <<>>
\* attribution: value and operator nodes (everything live but brackets-as-grouping and separators that only sequence)
NeedsInstruction(o, i) == Node(o, i).d \notin {"Drop", "Group"}
C04Attr(o, b) ==
  LET owned == { b.meta[k] : k \in DOMAIN b.meta }
      missing == { i \in Live(o) : NeedsInstruction(o, i) /\ i \notin owned } IN
  IF missing = {} THEN <<>>
  ELSE LET i == CHOOSE i \in missing : TRUE IN <<[why |-> "a value or operator node owns no emitted instruction", node |-> i, d |-> Node(o, i).d, n |-> Cardinality(missing), kf |-> KF_C04Attr(o, missing)]>>

(* ---------------------------------------------------------------- C05: the instruction stream of one build *)
JumpOps == {"JumpTo", "JumpIfTrue", "JumpIfFalse", "And", "Or", "Reapply"}
Terminators == {"EndExpression", "JumpTo", "Reapply"}
Own(b) == (b.ibase + 1)..Len(b.ins)              \* 1-based positions of the instructions this build emitted
C05(b) ==
  LET NI == Len(b.ins)  NJ == Len(b.jumps)
      badData == { k \in Own(b) : b.ins[k].op \in {"Put", "Resolve"} /\ (b.ins[k].d < 0 \/ b.ins[k].d >= b.dlen \/ b.ins[k].dt = "NONE") }
      badKind == { k \in Own(b) : b.ins[k].op = "Resolve" /\ b.ins[k].dt # "Symbol" }
      badJump == { k \in Own(b) : b.ins[k].op \in JumpOps /\ (b.ins[k].d < b.jbase \/ b.ins[k].d >= NJ) }
      badExpr == { k \in DOMAIN b.exprs : b.exprs[k].j < b.jbase \/ b.exprs[k].j >= NJ }
      badEntry == { j \in (b.jbase + 1)..NJ : b.jumps[j] < b.ibase \/ b.jumps[j] >= NI }
      \* blocks that are entered ONLY through the jump table: the entry, conditional arms, right operands of && / ||, expression bodies
      \* (the targets of JumpTo are join points in the middle of a run, reached by falling through as well)
      rootEntries == { b.entry } \cup { b.ins[k].d : k \in { k \in Own(b) : b.ins[k].op \in {"JumpIfTrue", "JumpIfFalse", "And", "Or"} } }
                     \cup { b.exprs[k].j : k \in DOMAIN b.exprs }
      starts == { b.jumps[j + 1] : j \in { j \in rootEntries : j >= b.jbase /\ j < NJ } }
      badBlock == { t \in starts : t > b.ibase /\ t < NI /\ b.ins[t].op \notin Terminators }        \* the instruction before a block start (0-based t-1 = position t)
      badList == { k \in Own(b) : b.ins[k].op = "MakeList" /\ b.ins[k].d < 0 } IN
  (IF badData # {} THEN <<"a data operand names no existing value">> ELSE <<>>)
  \o (IF badKind # {} THEN <<"a Resolve operand is not a symbol">> ELSE <<>>)
  \o (IF badJump # {} THEN <<"a jump operand names no jump-table entry of this build">> ELSE <<>>)
  \o (IF badExpr # {} THEN <<"an expression value names no jump-table entry of this build">> ELSE <<>>)
  \o (IF badEntry # {} THEN <<"a jump-table entry written by the build points at no instruction of this build (unpatched placeholder?)">> ELSE <<>>)
  \o (IF badBlock # {} THEN <<"a straight-line run does not end in EndExpression or an unconditional jump">> ELSE <<>>)
  \o (IF NI > b.ibase /\ b.ins[NI].op \notin Terminators THEN <<"the last run does not end in EndExpression or an unconditional jump">> ELSE <<>>)
  \o (IF badList # {} THEN <<"MakeList without a length">> ELSE <<>>)
  \o (IF Len(b.meta) # NI - b.ibase THEN <<"metadata records and emitted instructions differ in number">> ELSE <<>>)
  \o (IF \E k \in DOMAIN b.meta : b.meta[k] >= b.nnodes THEN <<"a metadata record names no parse node">> ELSE <<>>)

Accepted(o) == ~Has(o, "outcome") /\ o.stage = "build" /\ o.status = "ok" /\ Has(o, "nodes")
Tag(p, ws) == [i \in DOMAIN ws |-> [prop |-> p, why |-> ws[i]]]
Fails(o) ==
  Tag("C03", C03(o))
  \o (IF Accepted(o) THEN Tag("C04", C04Tree(o)) ELSE <<>>)
  \o (IF Accepted(o) THEN LET a == C04Attr(o, o.builds[1]) IN [i \in DOMAIN a |-> [prop |-> "C04", why |-> a[i].why, d |-> a[i].d, kf |-> a[i].kf]] ELSE <<>>)
  \o (IF Accepted(o) THEN LET w == C05(o.builds[1]) \o C05(o.builds[2]) IN [i \in DOMAIN w |-> [prop |-> "C05", why |-> w[i], kf |-> KF_C05(o, w[i])]] ELSE <<>>)
Report == Fails(Obs[c]) = <<>> \/ PrintT(<<"FAIL", ToJson([c |-> c, src |-> IF Has(Obs[c], "src") THEN Obs[c].src ELSE "", fails |-> Fails(Obs[c]),
                                                          kf |-> KF_Compile(Obs[c])])>>)
Stat == Accepted(Obs[c]) => PrintT(<<"STAT", ToJson([c |-> c, accepted |-> TRUE])>>)
==============================================================================
