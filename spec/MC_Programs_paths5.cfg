SPECIFICATION Spec
CONSTANTS N = 5
  ALPHA = {"val", "syma", "symb", "n0", "n1", "acc", "app", "cat", "rng", "leni", "cast"}
INVARIANT Emit
CHECK_DEADLOCK FALSE
