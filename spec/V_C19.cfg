SPECIFICATION Spec
INVARIANT Report
INVARIANT Stat
CHECK_DEADLOCK FALSE
