SPECIFICATION Spec
CONSTANTS N = 4
  ALPHA = {"ida", "idb", "idc", "n1", "val", "app", "appto", "emp", "add", "and", "cond", "nest", "seq", "lst", "pair", "acc"}
INVARIANT Emit
CHECK_DEADLOCK FALSE
