------------------------------ MODULE Number ------------------------------
(* Property layer of C09 (and the arithmetic used by Eval / VM): signed W-bit integer arithmetic that is
   "exact or unit, never wrapped".

   Two definitions of every operation:
     Math(op,a,b)  - the mathematical result computed with unbounded intermediate values, then tested for
                     representability.  TLC can evaluate it only for small W (its own integers are 32 bit).
     Safe(op,a,b)  - a RANGE-SAFE formula: no intermediate value ever leaves MINW..MAXW, so TLC can evaluate
                     it at W = 32 (TLC raises an error on overflow instead of wrapping, so a wrong formula
                     cannot silently produce a wrong oracle).
   MC_NumberSmall checks Safe = Math for every operation and every operand pair at W = 4..9; the same text is
   then instantiated at W = 32 as the oracle for the real code (V_C09).  Results are options: <<>> = unit. *)
EXTENDS Integers, Sequences, Bitwise
CONSTANT W            \* width in bits, 3 <= W <= 32

None == <<>>
Some(x) == <<x>>
IsSome(o) == Len(o) = 1

RECURSIVE Pow2(_)
Pow2(n) == IF n = 0 THEN 1 ELSE 2 * Pow2(n - 1)
MAXW == (Pow2(W - 2) - 1) + Pow2(W - 2)
MINW == -MAXW - 1
Abs(x) == IF x < 0 THEN -x ELSE x
Fits(x) == MINW <= x /\ x <= MAXW
Opt(r) == IF Fits(r) THEN Some(r) ELSE None
\* truncating division (toward zero); TLA+'s \div floors
TDiv(a, b) == LET q == Abs(a) \div Abs(b) IN IF (a < 0) = (b < 0) THEN q ELSE -q

BinaryOps == {"Add", "Subtract", "Multiply", "Divide", "IntegerDivide", "Remainder", "Power",
              "BitwiseAnd", "BitwiseOr", "BitwiseXor", "BitwiseShiftLeft", "BitwiseShiftRight"}
UnaryOps == {"Opposite", "AbsoluteValue", "BitwiseNot", "Increment", "Decrement"}

(* ------------------------------------------------------------------ mathematical definitions (small W) *)
RECURSIVE MPow(_, _)
MPow(a, n) == IF n = 0 THEN 1 ELSE LET r == MPow(a, n - 1) IN IF Abs(r) > MAXW + 1 THEN r ELSE a * r
\* two's complement W-bit pattern of x as a natural, and back
U(x) == IF x >= 0 THEN x ELSE x + 2 * (MAXW + 1)
S(u) == IF u > MAXW THEN u - 2 * (MAXW + 1) ELSE u
Math(op, a, b) ==
  CASE op = "Add" -> Opt(a + b)
    [] op = "Subtract" -> Opt(a - b)
    [] op = "Multiply" -> Opt(a * b)
    [] op \in {"Divide", "IntegerDivide"} -> IF b = 0 THEN None ELSE Opt(TDiv(a, b))
    [] op = "Remainder" -> IF b = 0 THEN None ELSE IF ~Fits(TDiv(a, b)) THEN None ELSE Some(a - b * TDiv(a, b))
    [] op = "Power" -> IF b < 0 THEN None ELSE Opt(MPow(a, IF Abs(a) >= 2 /\ b > W THEN W + 1 ELSE b))
    [] op = "BitwiseShiftLeft" -> IF b < 0 \/ b > W - 1 THEN None ELSE Opt(a * Pow2(b))
    [] op = "BitwiseShiftRight" -> IF b < 0 \/ b > W - 1 THEN None ELSE Some(a \div Pow2(b))
    [] op = "BitwiseAnd" -> Some(S(U(a) & U(b)))
    [] op = "BitwiseOr" -> Some(S(U(a) | U(b)))
    [] op = "BitwiseXor" -> Some(S(U(a) ^^ U(b)))
MathU(op, a) ==
  CASE op = "Opposite" -> Opt(-a)
    [] op = "AbsoluteValue" -> Opt(Abs(a))
    [] op = "BitwiseNot" -> Some(S((2 * (MAXW + 1) - 1) - U(a)))
    [] op = "Increment" -> Opt(a + 1)
    [] op = "Decrement" -> Opt(a - 1)

(* ------------------------------------------------------------------ range-safe definitions (any W <= 32) *)
SAdd(a, b) == IF b > 0 /\ a > MAXW - b THEN None ELSE IF b < 0 /\ a < MINW - b THEN None ELSE Some(a + b)
SSub(a, b) == IF b < 0 /\ a > MAXW + b THEN None ELSE IF b > 0 /\ a < MINW + b THEN None ELSE Some(a - b)
SMul(a, b) ==
  IF a = 0 \/ b = 0 THEN Some(0)
  ELSE IF a = MINW THEN (IF b = 1 THEN Some(a) ELSE None)
  ELSE IF b = MINW THEN (IF a = 1 THEN Some(b) ELSE None)
  ELSE LET x == Abs(a)  y == Abs(b)  neg == (a < 0) # (b < 0) IN
       IF x <= MAXW \div y THEN Some(a * b)
       ELSE IF neg /\ (y - 1) <= MAXW \div x /\ x * (y - 1) = MAXW - x + 1 THEN Some(MINW) ELSE None
SDivRaw(a, b) ==   \* precondition: b # 0 and not (a = MINW /\ b = -1)
  IF b = 1 THEN a
  ELSE IF a = MINW THEN (IF b = MINW THEN 1 ELSE
        LET q == MAXW \div Abs(b)  qq == IF MAXW - q * Abs(b) = Abs(b) - 1 THEN q + 1 ELSE q IN IF b > 0 THEN -qq ELSE qq)
  ELSE IF b = MINW THEN 0 ELSE TDiv(a, b)
SDiv(a, b) == IF b = 0 \/ (a = MINW /\ b = -1) THEN None ELSE Some(SDivRaw(a, b))
SRem(a, b) == IF b = 0 \/ (a = MINW /\ b = -1) THEN None
              ELSE IF b = MINW THEN (IF a = MINW THEN Some(0) ELSE Some(a))
              ELSE LET q == SDivRaw(a, b) IN
                   IF a = MINW THEN Some((a + Abs(b)) - b * (IF q < 0 THEN q + 1 ELSE q - 1)) ELSE Some(a - b * q)
RECURSIVE SPow(_, _)
SPow(a, n) == IF n < 0 THEN None ELSE IF n = 0 THEN Some(1)
              ELSE IF a = 0 THEN Some(0) ELSE IF a = 1 THEN Some(1) ELSE IF a = -1 THEN Some(IF n % 2 = 0 THEN 1 ELSE -1)
              ELSE IF n > W THEN None
              ELSE LET r == SPow(a, n - 1) IN IF ~IsSome(r) THEN None ELSE SMul(r[1], a)
SShl(a, n) == IF n < 0 \/ n > W - 1 THEN None
              ELSE IF n = W - 1 THEN (IF a = 0 THEN Some(0) ELSE IF a = -1 THEN Some(MINW) ELSE None)
              ELSE SMul(a, Pow2(n))
SShr(a, n) == IF n < 0 \/ n > W - 1 THEN None
              ELSE IF n = W - 1 THEN Some(IF a < 0 THEN -1 ELSE 0) ELSE Some(a \div Pow2(n))
\* bitwise on the sign / complement decomposition:  ~x = -x - 1  is non-negative for negative x
Inv(x) == IF x < 0 THEN -(x + 1) ELSE -x - 1
SAnd(a, b) == IF a >= 0 /\ b >= 0 THEN a & b
              ELSE IF a < 0 /\ b >= 0 THEN b - (b & Inv(a))
              ELSE IF a >= 0 /\ b < 0 THEN a - (a & Inv(b))
              ELSE Inv(Inv(a) | Inv(b))
SOr(a, b) == IF a >= 0 /\ b >= 0 THEN a | b
             ELSE IF a < 0 /\ b >= 0 THEN Inv(Inv(a) - (Inv(a) & b))
             ELSE IF a >= 0 /\ b < 0 THEN Inv(Inv(b) - (Inv(b) & a))
             ELSE Inv(Inv(a) & Inv(b))
SXor(a, b) == IF a >= 0 /\ b >= 0 THEN a ^^ b
              ELSE IF a < 0 /\ b >= 0 THEN Inv(Inv(a) ^^ b)
              ELSE IF a >= 0 /\ b < 0 THEN Inv(a ^^ Inv(b))
              ELSE Inv(a) ^^ Inv(b)
Safe(op, a, b) ==
  CASE op = "Add" -> SAdd(a, b) [] op = "Subtract" -> SSub(a, b) [] op = "Multiply" -> SMul(a, b)
    [] op \in {"Divide", "IntegerDivide"} -> SDiv(a, b) [] op = "Remainder" -> SRem(a, b) [] op = "Power" -> SPow(a, b)
    [] op = "BitwiseShiftLeft" -> SShl(a, b) [] op = "BitwiseShiftRight" -> SShr(a, b)
    [] op = "BitwiseAnd" -> Some(SAnd(a, b)) [] op = "BitwiseOr" -> Some(SOr(a, b)) [] op = "BitwiseXor" -> Some(SXor(a, b))
SafeU(op, a) ==
  CASE op = "Opposite" -> IF a = MINW THEN None ELSE Some(-a)
    [] op = "AbsoluteValue" -> IF a = MINW THEN None ELSE Some(Abs(a))
    [] op = "BitwiseNot" -> Some(Inv(a))
    [] op = "Increment" -> IF a = MAXW THEN None ELSE Some(a + 1)
    [] op = "Decrement" -> IF a = MINW THEN None ELSE Some(a - 1)

(* The statement of C09 for integers: the exact result if representable, unit otherwise. *)
ExactOrUnit(op, a, b) == Safe(op, a, b)
ExactOrUnitU(op, a) == SafeU(op, a)
=============================================================================
