SPECIFICATION Spec
CONSTANT REPS = "many"
INVARIANT Emit
CHECK_DEADLOCK FALSE
