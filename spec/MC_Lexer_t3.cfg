SPECIFICATION Spec
CONSTANTS N = 3
  ALPHABET = {"a", "1", "_", ":", ".", "+", "-", "<", ">", "~", "=", "!", "?", "$", "(", ")", "DQ", "SQ", "@", "BT", "SP", "TAB", "NL", "CR", "BS", "CTL", "E2", "EMOJI", ";", ",", "|", "&", "{", "}", "[", "]", "*", "/", "%", "^", "#", "0", "b"}
INVARIANT Emit
CHECK_DEADLOCK FALSE
