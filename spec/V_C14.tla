-------------------------------- MODULE V_C14 --------------------------------
(* Mode V for C14: each observation is one literal spelling compiled as a one-literal program and evaluated on both stores,
   read back through get_number / get_char_list_iter / get_byte_list_iter (+ length and item accessors, symbol name).
   TLC checks that the value is exactly the one the spelling denotes. *)
EXTENDS Values, Json, IOUtils, KnownFindingsLex
Obs == ndJsonDeserialize(IOEnv.OBS)
VARIABLE c
Init == c \in DOMAIN Obs
Next == UNCHANGED c
Spec == Init /\ [][Next]_c
Expected(o) ==
  CASE o.kind = "int" -> MkInt(o.v)
    [] o.kind = "frac" -> MkDy(NP!Norm(o.m, o.e)[1], NP!Norm(o.m, o.e)[2])
    [] o.kind = "float" -> [t |-> "float", s |-> o.s]
    [] o.kind = "text" -> [t |-> "str", v |-> o.chars]
    [] o.kind = "bytes" -> [t |-> "bytes", v |-> o.bytes]
    [] o.kind = "sym" -> [t |-> "sym", n |-> o.symname]
RunFails(o, r) ==
  LET F(why) == <<[store |-> r.store, why |-> why, status |-> r.status, msg |-> IF "msg" \in DOMAIN r THEN r.msg ELSE "",
                   got |-> IF "value" \in DOMAIN r THEN r.value ELSE U, kf |-> KF_C14(o, r, why)]>> IN
  IF r.status # "ok" THEN F("the literal does not evaluate: " \o r.status)
  ELSE IF ~SameVal(Expected(o), r.value) THEN F("the literal evaluates to a different value")
  ELSE IF o.kind = "text" /\ (r.len # Len(o.chars) \/ r.items # o.chars) THEN F("length / item accessors disagree with the characters")
  ELSE IF o.kind = "bytes" /\ r.len # Len(o.bytes) THEN F("byte list length disagrees")
  ELSE IF o.kind = "sym" /\ ~(r.symname = o.name \/ r.symname = <<58>> \o o.name) THEN F("the symbol does not keep the name it was written with")
  ELSE <<>>
Fails(o) == IF "runs" \notin DOMAIN o THEN <<[store |-> "both", why |-> "worker: " \o o.outcome, status |-> o.outcome, msg |-> IF "msg" \in DOMAIN o THEN o.msg ELSE "", got |-> U, kf |-> "NEW"]>> ELSE
            LET RECURSIVE Cat(_)
                Cat(i) == IF i > Len(o.runs) THEN <<>> ELSE RunFails(o, o.runs[i]) \o Cat(i + 1) IN Cat(1)
Report == Fails(Obs[c]) = <<>> \/ PrintT(<<"FAIL", ToJson([c |-> c, kind |-> IF "kind" \in DOMAIN Obs[c] THEN Obs[c].kind ELSE "?",
                                                         src |-> IF "input" \in DOMAIN Obs[c] THEN Obs[c].input ELSE <<>>, fails |-> Fails(Obs[c])])>>)
==============================================================================
