-------------------------------- MODULE Eval --------------------------------
(* The independent reference evaluator of the core language (the oracle of C01, C10, C17, C18, C20): what a source
   text MEANS, written as a recursive operator over the AST of Lang.tla.  There are no registers, instructions,
   jumps or addresses here; only values (Values.tla), the current input value `$`, and the host.

   Eval(t, cur, H, log, fuel) = [v |-> value, re |-> reapply requested, log |-> host calls so far]
     cur : the current input value `$`
     H   : the scripted host  [resolve |-> sequence of [name, value], apply |-> sequence of [ext, value]]
           (a name / external not listed is declined by the host)
     log : sequence of host calls  [cb |-> "resolve", sym |-> name, answered |-> bool]
                                   [cb |-> "apply", ext |-> n, arg |-> value, answered |-> bool]
   Order of evaluation is part of the meaning (host calls are observable): left operand before right, except pair
   `=` and apply-to `~>` which evaluate their right operand first; `&&` / `||` evaluate the right operand only if the
   left one does not decide; a conditional evaluates only the arm it selects. *)
EXTENDS Lang, Values, FiniteSets

FUELMAX == 40
R(v, log) == [v |-> v, re |-> FALSE, log |-> log]

LitVal(l) ==
  CASE l = "n0" -> MkInt(0) [] l = "n1" -> MkInt(1) [] l = "n2" -> MkInt(2) [] l = "n5" -> MkInt(5) [] l = "nmax" -> MkInt(2147483647)
    [] l = "f05" -> MkDy(1, -1) [] l = "f2" -> MkDy(1, 1) [] l = "f15" -> MkDy(3, -1)
    [] l = "f0" -> MkDy(0, 0) [] l = "f1" -> MkDy(1, 0) [] l = "f5" -> MkDy(5, 0)
    [] l = "unit" -> U [] l = "tru" -> TT [] l = "fls" -> FF
    [] l = "syma" -> MkSym("a") [] l = "symb" -> MkSym("b") [] l = "symc" -> MkSym("c")
    [] l = "strs" -> [t |-> "str", v |-> <<115>>] [] l = "stre" -> [t |-> "str", v |-> <<>>] [] l = "strab" -> [t |-> "str", v |-> <<97, 98>>]
    [] l = "byab" -> [t |-> "bytes", v |-> <<97, 98>>] [] l = "bys" -> [t |-> "bytes", v |-> <<115>>]
IdName(l) == CASE l = "ida" -> "a" [] l = "idb" -> "b" [] l = "idc" -> "c"
IsId(t) == t.l \in {"ida", "idb", "idc"}

BinIns(l) ==
  CASE l = "add" -> "Add" [] l = "sub" -> "Subtract" [] l = "mul" -> "Multiply" [] l = "div" -> "Divide" [] l = "idiv" -> "IntegerDivide"
    [] l = "rem" -> "Remainder" [] l = "pow" -> "Power" [] l = "band" -> "BitwiseAnd" [] l = "bor" -> "BitwiseOr" [] l = "bxor" -> "BitwiseXor"
    [] l = "shl" -> "BitwiseShiftLeft" [] l = "shr" -> "BitwiseShiftRight"
    [] l = "lt" -> "LessThan" [] l = "le" -> "LessThanOrEqual" [] l = "gt" -> "GreaterThan" [] l = "ge" -> "GreaterThanOrEqual"
    [] l = "eq" -> "Equal" [] l = "ne" -> "NotEqual"
ArithLabels == {"add", "sub", "mul", "div", "idiv", "rem", "pow", "band", "bor", "bxor", "shl", "shr"}
CmpLabels == {"lt", "le", "gt", "ge"}
UnIns(l) == CASE l = "neg" -> "Opposite" [] l = "abs" -> "AbsoluteValue" [] l = "bnot" -> "BitwiseNot"

\* an identifier: looked up in the input value first (pairs and lists have associations); only then the host, once
IdValue(name, cur, H, log) ==
  LET found == IF HasKeys(cur) THEN Lookup(cur, MkSym(name)) ELSE None
      unspecified == ~KeysDistinct(cur) \/ cur.t = "slice" IN
  IF unspecified THEN R(SKIP, log)
  ELSE IF found # None THEN R(found[1], log)
  ELSE LET h == HostResolve(H, name) IN
       R(IF h = None THEN U ELSE h[1], Append(log, [cb |-> "resolve", sym |-> name, answered |-> h # None]))

NarrowV(r, by) == [t |-> "range", l |-> MkInt(r.l.v + by.l.v), r |-> MkInt(r.l.v + by.r.v)]
RECURSIVE PathAccess(_, _, _)
\* follow a path of keys / indexes through nested containers; a missing step ends the walk with unit
PathAccess(cur, parts, i) ==
  IF i > Len(parts) THEN cur
  ELSE IF IsSkip(cur) THEN SKIP
  ELSE IF cur.t \in {"list", "pair", "concat"} THEN (LET nx == AccessV(cur, parts[i]) IN IF nx.t = "unit" THEN U ELSE PathAccess(nx, parts, i + 1))
  ELSE IF cur.t \in {"str", "bytes", "range", "slice", "symlist"} THEN SKIP
  ELSE U
RECURSIVE Eval(_, _, _, _, _), Items(_, _, _, _, _, _), ApplyV(_, _, _, _, _, _), ElseEval(_, _, _, _, _), ArmEval(_, _, _, _, _)

\* items of a space list / comma list: the left spine of same-kind nodes flattens into one list
Items(t, kind, cur, H, log, fuel) ==
  IF t.l = kind THEN
     LET ls == Items(t.a[1], kind, cur, H, log, fuel)
         r == Eval(t.b[1], cur, H, ls.log, fuel) IN
     [vs |-> Append(ls.vs, r.v), log |-> r.log]
  ELSE LET r == Eval(t, cur, H, log, fuel) IN [vs |-> <<r.v>>, log |-> r.log]

\* apply the value f to the argument x  (f <~ x,  x ~> f,  f ~~ with x = unit)
ApplyV(f, x, empty, H, log, fuel) ==
  IF IsSkip(f) \/ IsSkip(x) THEN R(SKIP, log)
  ELSE IF f.t = "expr" THEN
     (IF fuel = 0 THEN R(SKIP, log)
      ELSE LET r == Eval(f.body, x, H, log, fuel - 1) IN
           IF r.re THEN ApplyV(f, r.v, empty, H, r.log, fuel - 1) ELSE R(r.v, r.log))
  ELSE IF f.t = "partial" THEN      \* a partial application keeps an expression and the first part of its input; applying it appends the rest
     (IF f.l.t # "expr" THEN R(U, log)
      ELSE ApplyV(f.l, IF empty THEN f.r ELSE [t |-> "concat", l |-> f.r, r |-> x], FALSE, H, log, fuel))
  ELSE IF f.t = "ext" THEN
     LET h == HostApply(H, f.v) IN
     R(IF h = None THEN U ELSE IF h[1] = [t |-> "ARG"] THEN x ELSE h[1],
       Append(log, [cb |-> "apply", ext |-> f.v, arg |-> x, answered |-> h # None]))
  ELSE IF f.t \in {"list", "pair"} /\ x.t \in {"int", "sym"} THEN R(AccessV(f, x), log)
  ELSE IF f.t \in {"str", "bytes"} /\ x.t = "range" THEN R(IF IntRange(x) THEN [t |-> "slice", l |-> f, r |-> x] ELSE SKIP, log)
  ELSE IF f.t \in {"str", "bytes"} /\ x.t = "int" THEN R(U, log)        \* text is indexed with `.`, applying it to a number is not defined
  ELSE IF f.t \in {"list", "pair", "str", "bytes"} /\ x.t = "float" THEN R(SKIP, log)      \* fractional index: not specified
  \* a range applied to a range is the sub-range at those positions; a slice applied to a range narrows its range the same way
  ELSE IF f.t = "range" /\ x.t = "range" THEN R(IF IntRange(f) /\ IntRange(x) /\ x.l.v >= 0 THEN NarrowV(f, x) ELSE SKIP, log)
  ELSE IF f.t = "slice" /\ x.t = "range" THEN R(IF f.r.t = "range" /\ IntRange(f.r) /\ IntRange(x) /\ x.l.v >= 0 THEN [t |-> "slice", l |-> f.l, r |-> NarrowV(f.r, x)] ELSE SKIP, log)
  ELSE IF f.t \in {"range", "slice", "sym", "symlist", "concat", "str", "bytes"} THEN R(SKIP, log)
  ELSE IF f.t = "list" /\ x.t = "range" THEN R(IF IntRange(x) THEN [t |-> "slice", l |-> f, r |-> x] ELSE SKIP, log)     \* a list applied to a range is the slice
  ELSE IF f.t = "list" /\ x.t = "symlist" THEN R(PathAccess(f, x.v, 1), log)        \* a list applied to a symbol list follows the path key by key
  ELSE IF f.t \in {"concat", "symlist"} /\ x.t = "range" THEN R(IF IntRange(x) THEN [t |-> "slice", l |-> f, r |-> x] ELSE SKIP, log)
  ELSE R(U, log)

Eval(t, cur, H, log, fuel) ==
  LET k == Kind(t)  l == t.l IN
  CASE k = "atom" ->
         (IF l = "val" THEN R(cur, log) ELSE IF IsId(t) THEN IdValue(IdName(l), cur, H, log) ELSE R(LitVal(l), log))
    [] k = "nest" -> R([t |-> "expr", body |-> t.a[1]], log)
    [] k = "seq" ->      \* a ; b : the value of a becomes the input value of b
         LET x == Eval(t.a[1], cur, H, log, fuel) IN
         IF x.re THEN x ELSE Eval(t.b[1], x.v, H, x.log, fuel)
    [] k = "se" ->       \* x [ body ] : the body is evaluated for its effects only, with its own copy of `$`
         LET x == Eval(t.a[1], cur, H, log, fuel)
             s == Eval(t.b[1], cur, H, x.log, fuel) IN
         [v |-> IF IsSkip(s.v) THEN SKIP ELSE x.v, re |-> FALSE, log |-> s.log]
    [] k = "list" -> LET its == Items(t, "lst", cur, H, log, fuel) IN R([t |-> "list", v |-> its.vs], its.log)
    [] l = "com" -> LET its == Items(t, "com", cur, H, log, fuel) IN R([t |-> "list", v |-> its.vs], its.log)
    [] l = "reap" -> LET x == Eval(t.a[1], cur, H, log, fuel) IN [v |-> x.v, re |-> TRUE, log |-> x.log]
    [] l \in {"cond", "condf"} ->     \* c ?> a : a if c is true, otherwise the input value; the arm is not evaluated otherwise
         LET c == Eval(t.a[1], cur, H, log, fuel)
             take == IF l = "cond" THEN Truthy(c.v) ELSE ~Truthy(c.v) IN
         IF IsSkip(c.v) THEN R(SKIP, c.log) ELSE IF take THEN Eval(t.b[1], cur, H, c.log, fuel) ELSE R(cur, c.log)
    [] l = "els" ->      \* chain |> x : first arm whose condition holds; x is either a further arm or the default
         ElseEval(t, cur, H, log, fuel).r
    [] l \in {"pfa", "pfb", "sfa"} ->      \* a` x  /  x `a : resolve the name (like an identifier), then evaluate the operand, then apply
         LET f == IdValue(IF l = "pfb" THEN "b" ELSE "a", cur, H, log)
             x == Eval(t.a[1], cur, H, f.log, fuel) IN
         ApplyV(f.v, x.v, FALSE, H, x.log, fuel)
    [] l = "ifa" ->                        \* x `a` y : resolve the name, evaluate x then y, apply the name to the list of both
         LET f == IdValue("a", cur, H, log)
             x == Eval(t.a[1], cur, H, f.log, fuel)
             y == Eval(t.b[1], cur, H, x.log, fuel) IN
         ApplyV(f.v, IF IsSkip(x.v) \/ IsSkip(y.v) THEN SKIP ELSE [t |-> "list", v |-> <<x.v, y.v>>], FALSE, H, y.log, fuel)
    [] k = "pre" ->
         LET x == Eval(t.a[1], cur, H, log, fuel)  v == x.v IN
         IF IsSkip(v) THEN R(SKIP, x.log)
         ELSE R(CASE l \in {"neg", "abs", "bnot"} -> (IF IsNum(v) THEN NumOp1(UnIns(l), v) ELSE U)
                  [] l = "not" -> B(~Truthy(v))
                  [] l = "tis" -> B(Truthy(v))
                  [] l = "tyof" -> [t |-> "type", v |-> TypeName(v)]
                  [] l = "lefti" -> (CASE v.t \in {"pair", "concat"} -> v.l [] v.t = "slice" -> v.l [] v.t = "range" -> v.l [] OTHER -> U), x.log)
    [] k = "suf" ->
         LET x == Eval(t.a[1], cur, H, log, fuel)  v == x.v IN
         IF IsSkip(v) THEN R(SKIP, x.log)
         ELSE IF l = "emp" THEN ApplyV(v, U, TRUE, H, x.log, fuel)
         ELSE R(CASE l = "righti" -> (CASE v.t \in {"pair", "concat"} -> v.r [] v.t = "slice" -> v.r [] v.t = "range" -> v.r [] OTHER -> U)
                  [] l = "leni" -> (CASE v.t \in {"list", "str", "bytes"} -> MkInt(Len(v.v))
                                      [] v.t = "pair" -> (IF v.l.t = "sym" THEN MkInt(1) ELSE U)
                                      [] v.t = "concat" -> MkInt(Len(Flat(v)))
                                      [] v.t = "range" -> (IF IntRange(v) THEN MkInt(RangeLen(v)) ELSE SKIP)
                                      [] v.t = "slice" -> (IF IntRange(v.r) THEN MkInt(RangeLen(v.r)) ELSE SKIP)
                                      [] v.t = "symlist" -> SKIP
                                      [] OTHER -> U), x.log)
    [] l = "and" ->
         LET a == Eval(t.a[1], cur, H, log, fuel) IN
         IF IsSkip(a.v) THEN R(SKIP, a.log)
         ELSE IF ~Truthy(a.v) THEN R(FF, a.log)
         ELSE LET b == Eval(t.b[1], cur, H, a.log, fuel) IN IF b.re THEN b ELSE R(IF IsSkip(b.v) THEN SKIP ELSE B(Truthy(b.v)), b.log)
    [] l = "or" ->
         LET a == Eval(t.a[1], cur, H, log, fuel) IN
         IF IsSkip(a.v) THEN R(SKIP, a.log)
         ELSE IF Truthy(a.v) THEN R(TT, a.log)
         ELSE LET b == Eval(t.b[1], cur, H, a.log, fuel) IN IF b.re THEN b ELSE R(IF IsSkip(b.v) THEN SKIP ELSE B(Truthy(b.v)), b.log)
    [] l \in {"pair", "appto"} ->     \* right operand first
         LET b == Eval(t.b[1], cur, H, log, fuel)
             a == Eval(t.a[1], cur, H, b.log, fuel) IN
         IF l = "pair" THEN R(IF IsSkip(a.v) \/ IsSkip(b.v) THEN SKIP ELSE [t |-> "pair", l |-> a.v, r |-> b.v], a.log)
         ELSE ApplyV(b.v, a.v, FALSE, H, a.log, fuel)
    [] OTHER ->          \* ordinary binary operators: left, then right
         LET a == Eval(t.a[1], cur, H, log, fuel)
             b == IF l = "acc" /\ IsId(t.b[1]) THEN R(MkSym(IdName(t.b[1].l)), a.log)     \* x.name : the name is a key, not a look-up
                  ELSE Eval(t.b[1], cur, H, a.log, fuel)
             x == a.v  y == b.v IN
         IF l = "app" THEN ApplyV(x, y, FALSE, H, b.log, fuel)
         ELSE IF HasSkip(x) \/ HasSkip(y) THEN R(SKIP, b.log)
         ELSE R(CASE l \in ArithLabels -> (IF IsNum(x) /\ IsNum(y) THEN NumOp(BinIns(l), x, y) ELSE U)
                  [] l \in CmpLabels -> CmpV(BinIns(l), x, y)
                  [] l \in {"eq", "ne"} -> (IF x.t = "expr" \/ y.t = "expr" THEN SKIP ELSE EqV(BinIns(l), x, y))
                  [] l = "xor" -> B(Truthy(x) # Truthy(y))
                  [] l = "acc" -> AccessV(x, y)
                  [] l = "cat" -> [t |-> "concat", l |-> x, r |-> y]
                  [] l = "part" -> [t |-> "partial", l |-> x, r |-> y]
                  [] l = "cast" -> CastV(x, y)
                  [] l = "tyeq" -> (IF x.t = "type" \/ y.t = "type" THEN SKIP ELSE B(TypeName(x) = TypeName(y)))
                  [] l \in {"rng", "rngs", "rnge", "rngx"} ->
                       (IF ~(IsNum(x) /\ IsNum(y)) THEN U
                        ELSE IF x.t # "int" \/ y.t # "int" \/ x.v > 2147483000 \/ y.v < -2147483000 THEN SKIP
                        ELSE [t |-> "range", l |-> MkInt(IF l \in {"rngs", "rngx"} THEN x.v + 1 ELSE x.v), r |-> MkInt(IF l \in {"rnge", "rngx"} THEN y.v - 1 ELSE y.v)])
                  [] OTHER -> SKIP, b.log)

\* a whole program is the body of an expression applied to the input value: a re-apply at its top level starts it again
Run(t, cur, H, fuel) == ApplyV([t |-> "expr", body |-> t], cur, FALSE, H, <<>>, fuel)

\* else-chains are evaluated arm by arm: the chain  A1 |> A2 |> ... |> X  with Ai conditionals
\* returns [taken |-> BOOLEAN, r |-> result]  : whether some arm of the chain t was selected
ArmEval(t, cur, H, log, fuel) ==      \* t is a conditional  c ?> a
  LET c == Eval(t.a[1], cur, H, log, fuel)
      take == IF t.l = "cond" THEN Truthy(c.v) ELSE ~Truthy(c.v) IN
  IF IsSkip(c.v) THEN [taken |-> TRUE, r |-> R(SKIP, c.log)]
  ELSE IF take THEN [taken |-> TRUE, r |-> Eval(t.b[1], cur, H, c.log, fuel)]
  ELSE [taken |-> FALSE, r |-> R(cur, c.log)]
ElseEval(t, cur, H, log, fuel) ==
  IF t.l = "els" THEN
     LET left == ElseEval(t.a[1], cur, H, log, fuel) IN
     IF left.taken THEN left
     ELSE IF IsCondLike(t.b[1]) THEN ArmEval(t.b[1], cur, H, left.r.log, fuel)
     ELSE [taken |-> TRUE, r |-> Eval(t.b[1], cur, H, left.r.log, fuel)]
  ELSE ArmEval(t, cur, H, log, fuel)
=============================================================================
