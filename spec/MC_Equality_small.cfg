SPECIFICATION Spec
CONSTANT SIZE = "small"
INVARIANT Decidable
INVARIANT Reflexive
INVARIANT Symmetric
INVARIANT Transitive
INVARIANT Emit
CHECK_DEADLOCK FALSE
