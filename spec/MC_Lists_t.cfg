SPECIFICATION Spec
CONSTANTS MAXN = 3
  MODE = "cases"
INVARIANT Emit
CHECK_DEADLOCK FALSE
