SPECIFICATION Spec
CONSTANT FULL = FALSE
INVARIANT Emit
CHECK_DEADLOCK FALSE
