-------------------------------- MODULE V_C11 --------------------------------
(* Mode V for C11.  Each observation is a block of rows of the Equal / NotEqual result matrices over the value universe,
   measured on both stores, each pair built twice: A[i] against B[j] (B = the same values created again, in reverse order,
   so at different addresses) and A[i] against A[j] (possibly shared sub-values).
     pointwise : Equal = StructEq (Values.tla), NotEqual = its negation, on both variants;
     cleanup   : every comparison left exactly one result above the sentinel (depth_bad empty);
     laws      : on observations that carry the full matrix of the law core, the OBSERVED relation is reflexive,
                 symmetric and transitive. *)
EXTENDS Values, Json, IOUtils, KnownFindings
Obs == ndJsonDeserialize(IOEnv.OBS)
VARIABLE c
Init == c \in DOMAIN Obs
Next == UNCHANGED c
Spec == Init /\ [][Next]_c
Ch(b) == IF b THEN "T" ELSE "F"
StoreFails(o, name, m) ==
  IF m.status # "ok" THEN <<[store |-> name, why |-> "setup: " \o m.status, i |-> 0, j |-> 0, kf |-> "NEW"]>>
  ELSE
  LET n == Len(o.vals)
      Point == { <<r, j>> \in (DOMAIN o.rows) \X (1..n) :
                   LET i == o.rows[r] + 1  e == StructEq(o.vals[i], o.vals[j]) IN
                   e # None /\ ~( m.Equal.ab[r][j] = Ch(e[1]) /\ m.Equal.aa[r][j] = Ch(e[1])
                                /\ m.NotEqual.ab[r][j] = Ch(~e[1]) /\ m.NotEqual.aa[r][j] = Ch(~e[1]) ) }
      E(i, j) == m.Equal.ab[i][j] = "T"
      Laws == IF ~o.laws THEN {} ELSE
              { <<"reflexive", i, i>> : i \in { i \in 1..n : ~E(i, i) } }
              \cup { <<"symmetric", p[1], p[2]>> : p \in { p \in (1..n) \X (1..n) : E(p[1], p[2]) /\ ~E(p[2], p[1]) } }
              \cup { <<"transitive", p[1], p[3]>> : p \in { p \in (1..n) \X (1..n) \X (1..n) : E(p[1], p[2]) /\ E(p[2], p[3]) /\ ~E(p[1], p[3]) } }
      PF == IF Point = {} THEN <<>> ELSE LET p == CHOOSE p \in Point : TRUE IN
           <<[store |-> name, why |-> "Equal/NotEqual differs from structural equality", i |-> o.rows[p[1]] + 1, j |-> p[2], n |-> Cardinality(Point),
              l |-> o.vals[o.rows[p[1]] + 1], r |-> o.vals[p[2]],
              got |-> <<m.Equal.ab[p[1]][p[2]], m.Equal.aa[p[1]][p[2]], m.NotEqual.ab[p[1]][p[2]], m.NotEqual.aa[p[1]][p[2]]>>, kf |-> "NEW"]>>
      DF == IF m.depth_bad = <<>> THEN <<>> ELSE
           <<[store |-> name, why |-> "operands left behind on the operand stack", i |-> m.depth_bad[1].i + 1, j |-> m.depth_bad[1].j + 1, n |-> Len(m.depth_bad),
              l |-> o.vals[m.depth_bad[1].i + 1], r |-> o.vals[m.depth_bad[1].j + 1], got |-> <<>>, kf |-> "NEW"]>>
      LawF == IF Laws = {} THEN <<>> ELSE LET w == CHOOSE w \in Laws : TRUE IN
           <<[store |-> name, why |-> "observed relation is not " \o w[1], i |-> w[2], j |-> w[3], n |-> Cardinality(Laws), l |-> o.vals[w[2]], r |-> o.vals[w[3]], got |-> <<>>, kf |-> "NEW"]>>
  IN PF \o DF \o LawF
Fails(o) == StoreFails(o, "simple", o.simple) \o StoreFails(o, "basic", o.basic)
Report == Fails(Obs[c]) = <<>> \/ PrintT(<<"FAIL", ToJson([c |-> c, fails |-> Fails(Obs[c])])>>)
==============================================================================
