SPECIFICATION Spec
CONSTANTS N = 5
  ALPHABET = {"SP", "TAB", "NL", "CR", "a", "@", "NBSP"}
INVARIANT Emit
CHECK_DEADLOCK FALSE
