SPECIFICATION Spec
CONSTANTS N = 5
  ALPHA = {"val", "n0", "fls", "ida", "cond", "condf", "els", "and", "or", "nest", "app", "reap", "sub"}
INVARIANT Emit
CHECK_DEADLOCK FALSE
