-------------------------------- MODULE V_C13 --------------------------------
(* Mode V for C13: LexerProps!Verdict evaluated by TLC on every (input, tokens) pair observed from the real lex(); and the
   drift of the implementation-shaped model Lexer.tla (its predicted tokens / error vs the real ones), reported as STAT. *)
EXTENDS LexerProps, Json, IOUtils, KnownFindingsLex
Obs == ndJsonDeserialize(IOEnv.OBS)
VARIABLE c
Init == c \in DOMAIN Obs
Next == UNCHANGED c
Spec == Init /\ [][Next]_c
V(o) == IF o.status = "panic" THEN "lex panicked" ELSE IF o.status # "ok" THEN "ok" ELSE Verdict(o.input, o.toks)
Report == V(Obs[c]) = "ok" \/ PrintT(<<"FAIL", ToJson([c |-> c, input |-> Obs[c].input, why |-> V(Obs[c]),
                                                     toks |-> IF Obs[c].status = "ok" THEN Obs[c].toks ELSE <<>>, kf |-> KF_C13(Obs[c], V(Obs[c]))])>>)
Drift == LET o == Obs[c] IN
         ("model_res" \notin DOMAIN o) \/ (o.model_res = o.status /\ (o.status # "ok" \/ o.model_toks = o.toks))
         \/ PrintT(<<"STAT", ToJson([c |-> c, drift |-> TRUE, input |-> o.input])>>)
==============================================================================
