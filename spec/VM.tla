--------------------------------- MODULE VM ---------------------------------
(* The stack machine of garnish at VALUE level: the state the runtime crate manipulates through the GarnishData
   trait - instruction cursor, operand ("register") stack, input-value (`$`) stack, frame chain, host call log -
   and one named step operator per instruction (runtime/src/execute.rs dispatch; runtime/src/runtime/*.rs).
   Addresses are abstracted away: stacks hold VALUES (Values.tla), so both data implementations refine the same
   machine.  The meaning of each instruction on values comes from Values.tla (the same functions Eval.tla uses),
   the machine adds what the language level does not have: operand order on the stack, jumps through the jump
   table, frames, the `$` stack discipline, and the host protocol.

   A program is  [ins |-> sequence of [op, d, c], jumps |-> sequence of instruction indexes]  with 0-based indexes as in
   the code: ins[pc + 1], jumps[d + 1].  c is the constant a Put / Resolve instruction refers to.
   The machine state is a record  S = [pc, regs, vals, frames, log, status, loose]
     frames : sequence of [ret |-> return cursor, base |-> operand-stack depth at the call]
     log    : host calls made so far (same entries as Eval.tla)
     status : "run" | "end" | "err"
     loose  : TRUE when the value just pushed is not pinned by the specification (SKIP): trace validation adopts
              the observed value for it, the deliberate looseness of DESIGN.md 4.4. *)
EXTENDS Values

Top(s) == s[Len(s)]
Pop(s) == SubSeq(s, 1, Len(s) - 1)
Pop2(s) == SubSeq(s, 1, Len(s) - 2)
PopN(s, n) == SubSeq(s, 1, Len(s) - n)
Err(S) == [S EXCEPT !.status = "err"]
Adv(S) == [S EXCEPT !.pc = S.pc + 1]
\* push a result and advance; SKIP results make the step loose
Push(S, v) == IF IsSkip(v) THEN [Adv(S) EXCEPT !.loose = TRUE] ELSE [Adv(S) EXCEPT !.regs = Append(S.regs, v)]
Jump(P, d) == P.jumps[d + 1]
HasJump(P, d) == d >= 0 /\ d < Len(P.jumps)
Cur(S) == IF S.vals = <<>> THEN U ELSE Top(S.vals)

ArithOps == {"Add", "Subtract", "Multiply", "Divide", "IntegerDivide", "Remainder", "Power",
             "BitwiseAnd", "BitwiseOr", "BitwiseXor", "BitwiseShiftLeft", "BitwiseShiftRight"}
UnaryNumOps == {"Opposite", "AbsoluteValue", "BitwiseNot"}
CmpOps == {"LessThan", "LessThanOrEqual", "GreaterThan", "GreaterThanOrEqual"}
RangeOps == {"MakeRange", "MakeStartExclusiveRange", "MakeEndExclusiveRange", "MakeExclusiveRange"}
\* (TypeName: Values.tla)

(* ---- data movement *)
DoPut(P, S, ins) == Push(S, ins.c)
DoPutValue(P, S) == Push(S, Cur(S))
DoPushValue(P, S) == IF S.regs = <<>> THEN Err(S) ELSE [Adv(S) EXCEPT !.regs = Pop(S.regs), !.vals = Append(S.vals, Top(S.regs))]
DoUpdateValue(P, S) == IF S.regs = <<>> \/ S.vals = <<>> THEN Err(S)
                       ELSE [Adv(S) EXCEPT !.regs = Pop(S.regs), !.vals = Append(Pop(S.vals), Top(S.regs))]
DoStartSideEffect(P, S) == [Adv(S) EXCEPT !.vals = Append(S.vals, Cur(S))]
DoEndSideEffect(P, S) == IF S.vals = <<>> \/ S.regs = <<>> THEN Err(S) ELSE [Adv(S) EXCEPT !.vals = Pop(S.vals), !.regs = Pop(S.regs)]

(* ---- arithmetic, comparison, logic: pop the operands (right on top), push one result *)
DoArith(P, S, op) == IF Len(S.regs) < 2 THEN Err(S) ELSE
  LET l == S.regs[Len(S.regs) - 1]  r == Top(S.regs) IN
  Push([S EXCEPT !.regs = Pop2(S.regs)], IF IsNum(l) /\ IsNum(r) THEN NumOp(op, l, r) ELSE U)
DoUnaryNum(P, S, op) == IF S.regs = <<>> THEN Err(S) ELSE
  LET v == Top(S.regs) IN Push([S EXCEPT !.regs = Pop(S.regs)], IF IsNum(v) THEN NumOp1(op, v) ELSE U)
DoCompare(P, S, op) == IF Len(S.regs) < 2 THEN Err(S) ELSE
  LET l == S.regs[Len(S.regs) - 1]  r == Top(S.regs) IN
  Push([S EXCEPT !.regs = Pop2(S.regs)], IF l.t \in {"slice"} \/ r.t \in {"slice"} THEN SKIP ELSE CmpV(op, l, r))
DoEqual(P, S, op) == IF Len(S.regs) < 2 THEN Err(S) ELSE
  LET l == S.regs[Len(S.regs) - 1]  r == Top(S.regs) IN
  Push([S EXCEPT !.regs = Pop2(S.regs)],
       IF {l.t, r.t} \cap {"slice", "partial", "other", "bad", "deep"} # {} THEN SKIP ELSE EqV(op, l, r))
DoXor(P, S) == IF Len(S.regs) < 2 THEN Err(S) ELSE
  Push([S EXCEPT !.regs = Pop2(S.regs)], B(Truthy(S.regs[Len(S.regs) - 1]) # Truthy(Top(S.regs))))
DoNot(P, S) == IF S.regs = <<>> THEN Err(S) ELSE Push([S EXCEPT !.regs = Pop(S.regs)], B(~Truthy(Top(S.regs))))
DoTis(P, S) == IF S.regs = <<>> THEN Err(S) ELSE Push([S EXCEPT !.regs = Pop(S.regs)], B(Truthy(Top(S.regs))))

(* ---- control: all conditional instructions share ONE notion of truth (C10) *)
DoAnd(P, S, ins) == IF S.regs = <<>> \/ ~HasJump(P, ins.d) THEN Err(S)
                    ELSE IF Truthy(Top(S.regs)) THEN [S EXCEPT !.regs = Pop(S.regs), !.pc = Jump(P, ins.d)]
                    ELSE Push([S EXCEPT !.regs = Pop(S.regs)], FF)
DoOr(P, S, ins) == IF S.regs = <<>> \/ ~HasJump(P, ins.d) THEN Err(S)
                   ELSE IF Truthy(Top(S.regs)) THEN Push([S EXCEPT !.regs = Pop(S.regs)], TT)
                   ELSE [S EXCEPT !.regs = Pop(S.regs), !.pc = Jump(P, ins.d)]
DoJumpTo(P, S, ins) == IF ~HasJump(P, ins.d) THEN Err(S) ELSE [S EXCEPT !.pc = Jump(P, ins.d)]
DoJumpIfTrue(P, S, ins) == IF S.regs = <<>> \/ ~HasJump(P, ins.d) THEN Err(S)
                           ELSE IF Truthy(Top(S.regs)) THEN [S EXCEPT !.regs = Pop(S.regs), !.pc = Jump(P, ins.d)]
                           ELSE [Adv(S) EXCEPT !.regs = Pop(S.regs)]
DoJumpIfFalse(P, S, ins) == IF S.regs = <<>> \/ ~HasJump(P, ins.d) THEN Err(S)
                            ELSE IF ~Truthy(Top(S.regs)) THEN [S EXCEPT !.regs = Pop(S.regs), !.pc = Jump(P, ins.d)]
                            ELSE [Adv(S) EXCEPT !.regs = Pop(S.regs)]
\* end of an expression: hand the single result back to the caller, or finish with it as the new current value
DoEndExpression(P, S) ==
  IF S.regs = <<>> THEN Err(S)
  ELSE IF S.frames = <<>> THEN
       (IF S.vals = <<>> THEN Err(S)
        ELSE [S EXCEPT !.regs = Pop(S.regs), !.vals = Append(Pop(S.vals), Top(S.regs)), !.status = "end", !.pc = Len(P.ins)])
  ELSE LET f == Top(S.frames) IN
       [S EXCEPT !.pc = f.ret, !.regs = Append(SubSeq(S.regs, 1, f.base), Top(S.regs)), !.vals = Pop(S.vals), !.frames = Pop(S.frames)]
DoReapply(P, S, ins) == IF S.regs = <<>> \/ S.vals = <<>> \/ ~HasJump(P, ins.d) THEN Err(S)
                        ELSE [S EXCEPT !.pc = Jump(P, ins.d), !.regs = Pop(S.regs), !.vals = Append(Pop(S.vals), Top(S.regs))]

(* ---- construction *)
DoMakePair(P, S) == IF Len(S.regs) < 2 THEN Err(S) ELSE     \* the builder emits the right operand first: the left one is on top
  Push([S EXCEPT !.regs = Pop2(S.regs)], [t |-> "pair", l |-> Top(S.regs), r |-> S.regs[Len(S.regs) - 1]])
DoMakeList(P, S, ins) == IF ins.d < 0 \/ Len(S.regs) < ins.d THEN Err(S) ELSE
  Push([S EXCEPT !.regs = PopN(S.regs, ins.d)], [t |-> "list", v |-> SubSeq(S.regs, Len(S.regs) - ins.d + 1, Len(S.regs))])
DoConcat(P, S) == IF Len(S.regs) < 2 THEN Err(S) ELSE
  Push([S EXCEPT !.regs = Pop2(S.regs)], [t |-> "concat", l |-> S.regs[Len(S.regs) - 1], r |-> Top(S.regs)])
DoPartialApply(P, S) == IF Len(S.regs) < 2 THEN Err(S) ELSE
  Push([S EXCEPT !.regs = Pop2(S.regs)], [t |-> "partial", l |-> S.regs[Len(S.regs) - 1], r |-> Top(S.regs)])
DoMakeRange(P, S, op) == IF Len(S.regs) < 2 THEN Err(S) ELSE
  LET l == S.regs[Len(S.regs) - 1]  r == Top(S.regs)
      inc(v) == NumOp1("Increment", v)
      dec(v) == NumOp1("Decrement", v)
      \* a range holds its first and its last number; the exclusive forms move an end inwards
      lo == IF op \in {"MakeStartExclusiveRange", "MakeExclusiveRange"} THEN inc(l) ELSE l
      hi == IF op \in {"MakeEndExclusiveRange", "MakeExclusiveRange"} THEN dec(r) ELSE r IN
  Push([S EXCEPT !.regs = Pop2(S.regs)],
       IF ~(IsNum(l) /\ IsNum(r)) THEN U ELSE IF IsSkip(lo) \/ IsSkip(hi) \/ lo.t = "unit" \/ hi.t = "unit" THEN SKIP
       ELSE [t |-> "range", l |-> lo, r |-> hi])
DoTypeOf(P, S) == IF S.regs = <<>> THEN Err(S) ELSE Push([S EXCEPT !.regs = Pop(S.regs)], [t |-> "type", v |-> TypeName(Top(S.regs))])
DoLoose2(P, S) == IF Len(S.regs) < 2 THEN Err(S) ELSE Push([S EXCEPT !.regs = Pop2(S.regs)], SKIP)     \* ApplyType, TypeEqual: value not pinned here

(* ---- access *)
DoAccess(P, S) == IF Len(S.regs) < 2 THEN Err(S) ELSE
  Push([S EXCEPT !.regs = Pop2(S.regs)], AccessV(S.regs[Len(S.regs) - 1], Top(S.regs)))
Internal(op, v) ==
  CASE op = "AccessLeftInternal" -> (CASE v.t \in {"pair", "concat", "slice"} -> v.l [] v.t = "range" -> (IF IsNum(v.l) THEN v.l ELSE U) [] OTHER -> U)
    [] op = "AccessRightInternal" -> (CASE v.t \in {"pair", "concat", "slice"} -> v.r [] v.t = "range" -> (IF IsNum(v.r) THEN v.r ELSE U) [] OTHER -> U)
    [] OTHER -> (CASE v.t \in {"list", "str", "bytes"} -> MkInt(Len(v.v))
                   [] v.t = "pair" -> (IF v.l.t = "sym" THEN MkInt(1) ELSE U)
                   [] v.t \in {"range", "slice", "concat", "symlist"} -> SKIP
                   [] OTHER -> U)
DoInternal(P, S, op) == IF S.regs = <<>> THEN Err(S) ELSE Push([S EXCEPT !.regs = Pop(S.regs)], Internal(op, Top(S.regs)))

(* ---- apply and the host *)
Enter(P, S, rest, f, arg) ==     \* call the expression value f with input value arg; the return cursor is the next instruction
  IF ~HasJump(P, f.j) THEN Err(S)
  ELSE [S EXCEPT !.regs = rest, !.vals = Append(S.vals, arg), !.pc = Jump(P, f.j),
                 !.frames = Append(S.frames, [ret |-> S.pc + 1, base |-> Len(rest)])]
DoApply(P, S, H, op) ==
  LET regs1 == IF op = "EmptyApply" THEN Append(S.regs, U) ELSE S.regs  m == Len(regs1) IN
  IF m < 2 THEN Err(S) ELSE
  LET f == regs1[m - 1]  x == regs1[m]  rest == Pop2(regs1)  S1 == [S EXCEPT !.regs = rest] IN
  CASE f.t = "expr" -> Enter(P, S, rest, f, x)
    [] f.t = "ext" ->
         LET h == HostApply(H, f.v) IN
         Push([S1 EXCEPT !.log = Append(S.log, [cb |-> "apply", ext |-> f.v, arg |-> x, answered |-> h # None])],
              IF h = None THEN U ELSE IF h[1] = [t |-> "ARG"] THEN x ELSE h[1])
    [] f.t = "partial" ->
         (IF f.l.t = "expr" THEN Enter(P, S, rest, f.l, IF op = "EmptyApply" THEN f.r ELSE [t |-> "concat", l |-> f.r, r |-> x]) ELSE Push(S1, U))
    [] f.t \in {"list", "pair"} /\ x.t \in {"int", "sym"} -> Push(S1, AccessV(f, x))
    [] f.t \in {"list", "concat", "str", "bytes", "symlist"} /\ x.t = "range" -> Push(S1, [t |-> "slice", l |-> f, r |-> x])
    [] f.t \in {"range", "slice", "sym", "symlist"} \/ x.t \in {"symlist", "float"} -> Push(S1, SKIP)
    [] OTHER -> Push(S1, U)
\* an identifier: the current input value first; only then the host, exactly once; unit if it declines (C17)
DoResolve(P, S, H, ins) ==
  LET cur == Cur(S)  sym == ins.c
      found == IF sym.t = "sym" /\ HasKeys(cur) THEN Lookup(cur, sym) ELSE None IN
  IF sym.t = "sym" /\ (~KeysDistinct(cur) \/ cur.t = "slice") THEN Push(S, SKIP)
  ELSE IF found # None THEN Push(S, found[1])
  ELSE IF sym.t # "sym" THEN Push(S, U)
  ELSE LET h == HostResolve(H, sym.n) IN
       Push([S EXCEPT !.log = Append(S.log, [cb |-> "resolve", sym |-> sym.n, answered |-> h # None])], IF h = None THEN U ELSE h[1])

(* ---- one step of the machine *)
Step(P, S, H) ==
  IF S.pc < 0 \/ S.pc >= Len(P.ins) THEN [S EXCEPT !.status = "end"]        \* running off the end is how the runtime reports End
  ELSE LET ins == P.ins[S.pc + 1]  op == ins.op IN
  CASE op = "Put" -> DoPut(P, S, ins)
    [] op = "PutValue" -> DoPutValue(P, S)
    [] op = "PushValue" -> DoPushValue(P, S)
    [] op = "UpdateValue" -> DoUpdateValue(P, S)
    [] op = "StartSideEffect" -> DoStartSideEffect(P, S)
    [] op = "EndSideEffect" -> DoEndSideEffect(P, S)
    [] op \in ArithOps -> DoArith(P, S, op)
    [] op \in UnaryNumOps -> DoUnaryNum(P, S, op)
    [] op \in CmpOps -> DoCompare(P, S, op)
    [] op \in {"Equal", "NotEqual"} -> DoEqual(P, S, op)
    [] op = "Xor" -> DoXor(P, S)
    [] op = "Not" -> DoNot(P, S)
    [] op = "Tis" -> DoTis(P, S)
    [] op = "And" -> DoAnd(P, S, ins)
    [] op = "Or" -> DoOr(P, S, ins)
    [] op = "JumpTo" -> DoJumpTo(P, S, ins)
    [] op = "JumpIfTrue" -> DoJumpIfTrue(P, S, ins)
    [] op = "JumpIfFalse" -> DoJumpIfFalse(P, S, ins)
    [] op = "EndExpression" -> DoEndExpression(P, S)
    [] op = "Reapply" -> DoReapply(P, S, ins)
    [] op = "MakePair" -> DoMakePair(P, S)
    [] op = "MakeList" -> DoMakeList(P, S, ins)
    [] op = "Concat" -> DoConcat(P, S)
    [] op = "PartialApply" -> DoPartialApply(P, S)
    [] op \in RangeOps -> DoMakeRange(P, S, op)
    [] op = "TypeOf" -> DoTypeOf(P, S)
    [] op \in {"ApplyType", "TypeEqual"} -> DoLoose2(P, S)
    [] op = "Access" -> DoAccess(P, S)
    [] op \in {"AccessLeftInternal", "AccessRightInternal", "AccessLengthInternal"} -> DoInternal(P, S, op)
    [] op \in {"Apply", "EmptyApply"} -> DoApply(P, S, H, op)
    [] op = "Resolve" -> DoResolve(P, S, H, ins)
    [] OTHER -> Err(S)

S0(start, input) == [pc |-> start, regs |-> <<>>, vals |-> <<input>>, frames |-> <<>>, log |-> <<>>, status |-> "run", loose |-> FALSE]

(* ---- invariants of the machine (C06): depths never negative is structural (sequences); frames are well nested *)
FramesWellNested(S) == \A i \in DOMAIN S.frames : S.frames[i].base <= Len(S.regs) /\ (i > 1 => S.frames[i - 1].base <= S.frames[i].base)
ValsCoverFrames(S) == Len(S.vals) >= Len(S.frames) + (IF S.status = "err" THEN 0 ELSE 1)
=============================================================================
