SPECIFICATION Spec
CONSTANT L = 5
INVARIANT ReadBack
INVARIANT Layout
INVARIANT Emit
PROPERTY AppendOnly
CHECK_DEADLOCK FALSE
