SPECIFICATION Spec
CONSTANTS N = 3
  ALPHA = {"n0", "n1", "n2", "n5", "nmax", "f05", "f2", "f15", "f0", "f1", "f5", "unit", "tru", "fls", "syma", "symb", "strs", "stre", "strab", "pair", "lst", "eq"}
INVARIANT Emit
CHECK_DEADLOCK FALSE
