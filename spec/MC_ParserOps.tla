----------------------------- MODULE MC_ParserOps -----------------------------
(* Mode G for C02: every expression  [prefixes] value [suffixes] { (binary operator | blank) [prefixes] value [suffixes] }  with at most K operators drawn from OPS
   (binary, prefix and suffix operators, the implicit space list in every operand-end / operand-start adjacency, comma
   list, conditional and apply forms), grown one token at a time.  For each complete expression the reference tree
   (RefParse) is computed, and the design-level reading "parenthesising what the table implies changes nothing" is checked
   on the reference itself (Idempotent).  Emit prints tokens, the fully parenthesised twin and the tree for replay. *)
EXTENDS RefParse, Json
CONSTANTS K, OPS        \* OPS: "all" | "reps" (one representative per priority level and fixity)
Pool == IF OPS = "all" THEN Operators ELSE Representatives \cup {ListOp}
VARIABLES toks, expect, nops
vars == <<toks, expect, nops>>
Init == toks = <<>> /\ expect = "operand" /\ nops = 0
More == nops < K
AddPrefix == /\ expect = "operand" /\ More
             /\ \E o \in Pool \cap Prefix : toks' = Append(toks, T(o)) /\ nops' = nops + 1 /\ UNCHANGED expect
AddValue == /\ expect = "operand" /\ toks' = Append(toks, V("5")) /\ expect' = "operator" /\ UNCHANGED nops
AddSuffix == /\ expect = "operator" /\ More
             /\ \E o \in Pool \cap Suffix : toks' = Append(toks, T(o)) /\ nops' = nops + 1 /\ UNCHANGED expect
AddBinary == /\ expect = "operator" /\ More
             /\ \E o \in Pool \cap Binary : toks' = Append(toks, T(o)) /\ nops' = nops + 1 /\ expect' = "operand"
\* a blank followed by an operand start: the implicit list (counts as one operator)
AddListValue == /\ expect = "operator" /\ More /\ ListOp \in Pool
                /\ toks' = Append(toks, V("5")) /\ nops' = nops + 1 /\ UNCHANGED expect
AddListPrefix == /\ expect = "operator" /\ nops + 2 <= K /\ ListOp \in Pool
                 /\ \E o \in Pool \cap Prefix : toks' = Append(toks, T(o)) /\ nops' = nops + 2 /\ expect' = "operand"
Next == AddPrefix \/ AddValue \/ AddSuffix \/ AddBinary \/ AddListValue \/ AddListPrefix
Spec == Init /\ [][Next]_vars
Complete == expect = "operator" /\ nops >= 1
Idempotent == Complete => RefTree(FullParen(RefTree(toks), TRUE)) = RefTree(toks)
Texts(ts) == [i \in DOMAIN ts |-> ts[i].txt]
Emit == Complete => PrintT(<<"REPLAY", ToJson([toks |-> toks, ptoks |-> Texts(FullParen(RefTree(toks), TRUE))])>>)
==============================================================================
