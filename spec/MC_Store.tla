------------------------------- MODULE MC_Store -------------------------------
(* Mode G for C15: Store.tla explored for every interleaving of up to L pushes; every complete history (length L, or
   shorter ones by the driver's choice) is printed: which block each push goes to and, at a block's first use, the
   initial size and growth policy chosen for it. *)
EXTENDS Store, Json
Emit == n = L => PrintT(<<"REPLAY", ToJson([hist |-> hist])>>)
==============================================================================
