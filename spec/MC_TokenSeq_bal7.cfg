SPECIFICATION Spec
CONSTANTS L = 7
 CLASSES = {"val", "pre", "bin", "open", "close", "nopen", "nclose", "sopen", "sclose", "blankline", "sep"}
 SEPS = {"blank"}
 BALANCED = TRUE
INVARIANT Emit
CHECK_DEADLOCK FALSE
