SPECIFICATION Spec
CONSTANTS N = 8
  ALPHA = {"tru", "fls", "n5", "and", "or", "els", "cond", "tis"}
INVARIANT Emit
CHECK_DEADLOCK FALSE
