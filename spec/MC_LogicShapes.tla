---------------------------- MODULE MC_LogicShapes ----------------------------
(* Mode G for C10 / C01: the right operand of && / || is an else-chain whose selected arm is NOT a boolean and whose default
   ends in each boolean-producing operator (comparison, equality, type-equality, logic, `??`, `!!`): the join point of the chain
   and the closing coercion of the operand meet behind that last instruction.  "&& and || always produce a boolean" whatever
   instruction the operand's code happens to end in.  Shapes too deep (9-11 nodes) for the size-bounded enumeration. *)
EXTENDS Lang, Json
Atoms == {"n5", "n1", "unit"}
Lasts == { <<o, x, y>> : o \in {"eq", "ne", "tyeq", "lt", "le", "gt", "ge", "and", "or", "xor"}, x \in {"n5", "n1"}, y \in {"n5"} }
         \cup { <<o, x>> : o \in {"tis", "not"}, x \in {"n5", "unit"} }

Shapes == { <<o, l, "els", k, c, arm>> \o d : o \in {"and", "or"}, l \in {"tru", "fls", "n5", "unit"}, k \in {"cond", "condf"}, c \in {"tru", "fls"}, arm \in Atoms, d \in Lasts }
          \cup { <<o, "els", k, c, arm>> \o d \o <<"n5">> : o \in {"and", "or"}, k \in {"cond", "condf"}, c \in {"tru", "fls"}, arm \in Atoms, d \in Lasts }
VARIABLES ast
Init == ast \in Shapes
Next == UNCHANGED ast
Spec == Init /\ [][Next]_ast
Emit == WellFormed(TreeOf(ast)) => PrintT(<<"REPLAY", ToJson([ast |-> ast, toks |-> Texts(Pr(TreeOf(ast)))])>>)
==============================================================================
