------------------------------ MODULE Optimize ------------------------------
(* Implementation-shaped model of BasicGarnishData::optimize (data/src/basic/optimize.rs, ordering.rs, clone.rs) over an
   address-level heap (the data block; start = 0):
     create_index_stack   a worklist of Clone cells appended behind the data, one per reachable cell, breadth-first from the
                          operand-stack head, the input-value-stack head and every extra root;
     clone_index_stack    the worklist is processed from its END towards its start; each cell is copied behind the worklist
                          with its references translated through the Map cells written so far (old -> new, new already
                          reduced by the offset of the later slide-down; addresses in the retained prefix stay);
     slide-down           the copies are moved down over the garbage, the stack heads are translated.
   Mutator actions are what the GarnishData interface can build (numbers, symbols, pairs, lists with their association
   slots, pushes and pops of both stacks, retention of the current prefix); Collect runs the collector with 0..2 extra
   roots, once or twice.  PROPERTY (C19, design level): Preserved - everything reachable from the two stacks, the
   retained prefix and the extra roots (through the returned mapping) reads back exactly as before, and no collector
   cell survives.  The history of mutator operations is printed as a script for the harness (`opt`). *)
EXTENDS Integers, Sequences, TLC, Json
CONSTANTS MaxOps, MaxCells
NONE == -1
\* cells: [k, a, b]   k in Num Sym Pair List Item Assoc Empty Reg RegRoot Val ValRoot Clone Map
C(k, a, b) == [k |-> k, a |-> a, b |-> b]
VARIABLES heap, reg, val, ret, ops, extra, phase, before, mapped, hist, rootids
vars == <<heap, reg, val, ret, ops, extra, phase, before, mapped, hist, rootids>>
At(h, i) == h[i + 1]
Cur(h) == Len(h)
Vals(h) == {i \in 0..(Len(h) - 1) : At(h, i).k \in {"Num","Sym","Pair","List"}}     \* addresses of garnish values

Init == heap = <<>> /\ reg = NONE /\ val = NONE /\ ret = 0 /\ ops = 0 /\ extra = <<>> /\ phase = "mut" /\ before = <<>> /\ mapped = <<>> /\ hist = <<>> /\ rootids = <<>>

\* ---- mutator (what the GarnishData API can build)
Bump == ops' = ops + 1
\* the script: values are named by the address the model gave them (an id for the harness, which keeps its own addresses)
Ref(a) == [t |-> "ref", id |-> a]
H(rec) == hist' = Append(hist, rec)
NewVal(d) == H([op |-> "val", id |-> Len(heap), d |-> d])
Same == UNCHANGED <<reg, val, ret, extra, phase, before, mapped, rootids>>
AddNum == /\ \E n \in {1, 2} : heap' = Append(heap, C("Num", n, 0)) /\ NewVal([t |-> "int", v |-> n]) /\ Same /\ Bump
AddSym == /\ \E s \in {1, 2} : heap' = Append(heap, C("Sym", s, 0)) /\ NewVal([t |-> "sym", n |-> IF s = 1 THEN "#1" ELSE "#2"]) /\ Same /\ Bump
AddPair == /\ \E l, r \in Vals(heap) : heap' = Append(heap, C("Pair", l, r)) /\ NewVal([t |-> "pair", l |-> Ref(l), r |-> Ref(r)]) /\ Same /\ Bump
\* list of 0..2 items: header, items, association slots (sorted, Empty last) as end_list leaves them
AssocOf(h, it) == IF At(h, it).k = "Pair" /\ At(h, At(h, it).a).k = "Sym" THEN C("Assoc", At(h, At(h, it).a).a, At(h, it).b) ELSE C("Empty", 0, 0)
SortAssoc(s) == IF Len(s) < 2 THEN s
                ELSE IF s[1].k = "Empty" /\ s[2].k # "Empty" THEN <<s[2], s[1]>>
                ELSE IF s[1].k = "Assoc" /\ s[2].k = "Assoc" /\ s[1].a > s[2].a THEN <<s[2], s[1]>> ELSE s
AddList == /\ \E items \in {<<>>} \cup {<<x>> : x \in Vals(heap)} \cup {<<x, y>> : x, y \in Vals(heap)} :
               LET as == SortAssoc([i \in DOMAIN items |-> AssocOf(heap, items[i])])
                   na == Len(SelectSeq(as, LAMBDA c : c.k # "Empty"))
               IN heap' = heap \o <<C("List", Len(items), na)>> \o [i \in DOMAIN items |-> C("Item", items[i], 0)] \o as /\ NewVal([t |-> "list", v |-> [i \in DOMAIN items |-> Ref(items[i])]])
           /\ Same /\ Bump
PushReg == /\ \E v \in Vals(heap) : heap' = Append(heap, IF reg = NONE THEN C("RegRoot", v, 0) ELSE C("Reg", reg, v)) /\ reg' = Cur(heap) /\ H([op |-> "reg", id |-> v])
           /\ UNCHANGED <<val, ret, extra, phase, before, mapped, rootids>> /\ Bump
PopReg == /\ reg # NONE /\ reg' = (IF At(heap, reg).k = "Reg" THEN At(heap, reg).a ELSE NONE)
          /\ H([op |-> "popreg"]) /\ UNCHANGED <<heap, val, ret, extra, phase, before, mapped, rootids>> /\ Bump
PushVal == /\ \E v \in Vals(heap) : heap' = Append(heap, IF val = NONE THEN C("ValRoot", v, 0) ELSE C("Val", val, v)) /\ val' = Cur(heap) /\ H([op |-> "pushval", id |-> v])
           /\ UNCHANGED <<reg, ret, extra, phase, before, mapped, rootids>> /\ Bump
Retain == /\ ret' = Cur(heap) /\ H([op |-> "retain"]) /\ UNCHANGED <<heap, reg, val, extra, phase, before, mapped, rootids>> /\ Bump
Mutate == phase = "mut" /\ ops < MaxOps /\ Len(heap) < MaxCells /\ (AddNum \/ AddSym \/ AddPair \/ AddList \/ PushReg \/ PopReg \/ PushVal \/ Retain)

\* ---- abstract read-back of a value / a chain
RECURSIVE Read(_, _)
Read(h, i) == LET c == At(h, i) IN
  CASE c.k = "Num" -> <<"num", c.a>> [] c.k = "Sym" -> <<"sym", c.a>>
    [] c.k = "Pair" -> <<"pair", Read(h, c.a), Read(h, c.b)>>
    [] c.k = "List" -> <<"list", [j \in 1..c.a |-> Read(h, At(h, i + j).a)],
                               [j \in 1..c.b |-> <<At(h, i + c.a + j).a, Read(h, At(h, i + c.a + j).b)>>]>>
    [] OTHER -> <<"bad", c.k>>
RECURSIVE Chain(_, _)
Chain(h, i) == IF i = NONE THEN <<>> ELSE LET c == At(h, i) IN
               IF c.k \in {"Reg","Val"} THEN Append(Chain(h, c.a), Read(h, c.b)) ELSE IF c.k \in {"RegRoot","ValRoot"} THEN <<Read(h, c.a)>> ELSE <<<<"badchain", c.k>>>>
Snapshot(h, r, v, ex, rt) == [regs |-> Chain(h, r), vals |-> Chain(h, v), extra |-> [j \in DOMAIN ex |-> Read(h, ex[j])],
                              retained |-> [j \in 1..rt |-> IF At(h, j - 1).k \in {"Num","Sym","Pair","List"} THEN Read(h, j - 1) ELSE <<"cell", At(h, j - 1)>>]]

\* ---- collector, transcribed
\* create_index_stack(from): worklist of Clone cells appended to the heap
RECURSIVE CIS(_, _)
CIS(h, cur) ==
  IF cur >= Len(h) THEN h
  ELSE LET idx == At(h, cur).a  c == At(h, idx)
           add == CASE c.k \in {"Pair"} -> <<C("Clone", c.b, 0), C("Clone", c.a, 0)>>
                    [] c.k = "List" -> [j \in 1..c.a |-> C("Clone", At(h, idx + j).a, 0)]
                    [] c.k \in {"Reg","Val"} -> <<C("Clone", c.a, 0), C("Clone", c.b, 0)>>
                    [] c.k \in {"RegRoot","ValRoot"} -> <<C("Clone", c.a, 0)>>
                    [] OTHER -> <<>>
       IN CIS(h \o add, cur + 1)
CreateIndexStack(h, from) == CIS(Append(h, C("Clone", from, 0)), Len(h))

\* lookup_in_data_slice_optional over Map cells in heap positions [ls, le)
Lookup(h, ls, le, x, rt) ==
  IF x < rt THEN x
  ELSE LET hits == {p \in ls..(le - 1) : At(h, p).k = "Map" /\ At(h, p).a = x} IN
       IF hits = {} THEN NONE ELSE At(h, CHOOSE p \in hits : \A q \in hits : p <= q).b

\* clone_index_stack(top, offset): process Clone cells from the end towards top
RECURSIVE CloneLoop(_, _, _, _, _, _, _)
\* returns [ok, h]
CloneLoop(h, i, top, ls, le, offset, rt) ==
  IF i < top THEN [ok |-> TRUE, h |-> h]
  ELSE LET idx == At(h, i).a
           ex == Lookup(h, ls, le, idx, rt) IN
       IF ex # NONE THEN CloneLoop([h EXCEPT ![i + 1] = C("Map", idx, ex)], i - 1, top, ls - 1, le, offset, rt)
       ELSE LET c == At(h, idx)
                L(x) == Lookup(h, ls, le, x, rt)
                ni == Len(h)
                fix(n) == IF n < rt THEN n ELSE n - offset
                res ==
                  CASE c.k \in {"Num","Sym"} -> [ok |-> TRUE, add |-> <<c>>]
                    [] c.k \in {"Pair"} -> [ok |-> L(c.a) # NONE /\ L(c.b) # NONE, add |-> <<C("Pair", L(c.a), L(c.b))>>]
                    [] c.k = "List" ->
                         LET cells == [j \in 1..(2 * c.a) |-> At(h, idx + j)]
                             okc == \A j \in 1..(2 * c.a) : (cells[j].k = "Item" => L(cells[j].a) # NONE) /\ (cells[j].k = "Assoc" => L(cells[j].b) # NONE)
                         IN [ok |-> okc, add |-> <<c>> \o [j \in 1..(2 * c.a) |-> IF cells[j].k = "Item" THEN C("Item", L(cells[j].a), 0)
                                                                                  ELSE IF cells[j].k = "Assoc" THEN C("Assoc", cells[j].a, L(cells[j].b)) ELSE cells[j]]]
                    [] c.k \in {"Reg","Val"} -> [ok |-> L(c.a) # NONE /\ L(c.b) # NONE, add |-> <<C(c.k, L(c.a), L(c.b))>>]
                    [] c.k \in {"RegRoot","ValRoot"} -> [ok |-> L(c.a) # NONE, add |-> <<C(c.k, L(c.a), 0)>>]
                    [] OTHER -> [ok |-> FALSE, add |-> <<>>]
            IN IF ~res.ok THEN [ok |-> FALSE, h |-> h]
               ELSE CloneLoop([h \o res.add EXCEPT ![i + 1] = C("Map", idx, fix(ni))], i - 1, top, ls - 1, le, offset, rt)

Optimize(h0, r, v, ex, rt) ==
  LET dataEnd == Len(h0)
      top == Len(h0)
      h1 == IF r # NONE THEN CreateIndexStack(h0, r) ELSE h0
      h2 == IF v # NONE THEN CreateIndexStack(h1, v) ELSE h1
      RECURSIVE Ex(_, _)
      Ex(h, j) == IF j > Len(ex) THEN h ELSE Ex(CreateIndexStack(h, ex[j]), j + 1)
      h3 == Ex(h2, 1)
      listEnd == Len(h3)
      offset == listEnd - rt
      cl == IF listEnd # dataEnd THEN CloneLoop(h3, listEnd - 1, top, listEnd, listEnd, offset, rt) ELSE [ok |-> TRUE, h |-> h3]
  IN IF ~cl.ok THEN [ok |-> FALSE, h |-> h0, r |-> r, v |-> v, m |-> <<>>]
     ELSE LET h4 == cl.h
              M(x) == Lookup(h4, top, listEnd, x, rt)
              allok == (r # NONE => M(r) # NONE) /\ (v # NONE => M(v) # NONE) /\ \A j \in DOMAIN ex : M(ex[j]) # NONE
              newEnd == Len(h4)
              moved == SubSeq(h4, listEnd + 1, newEnd)
          IN IF ~allok THEN [ok |-> FALSE, h |-> h0, r |-> r, v |-> v, m |-> <<>>]
             ELSE [ok |-> TRUE, h |-> SubSeq(h4, 1, rt) \o moved, r |-> IF r = NONE THEN NONE ELSE M(r), v |-> IF v = NONE THEN NONE ELSE M(v),
                   m |-> [j \in DOMAIN ex |-> M(ex[j])]]

\* ---- run the collector once (0..2 extra roots among all values) or a second time (no roots, or the roots of the first
\* run at the addresses the first run returned for them)
RunCollect(ex, ids) ==
  LET o == Optimize(heap, reg, val, ex, ret) IN
  /\ before' = <<Snapshot(heap, reg, val, ex, ret), o.ok>>
  /\ extra' = ex /\ rootids' = ids
  /\ heap' = o.h /\ reg' = o.r /\ val' = o.v /\ mapped' = o.m /\ H([op |-> "gc", roots |-> ids])
Collect == \/ /\ phase = "mut"
              /\ \E ex \in {<<>>} \cup {<<x>> : x \in Vals(heap)} \cup {<<x, y>> : x, y \in Vals(heap)} : RunCollect(ex, ex)
              /\ phase' = "gc1" /\ UNCHANGED <<ret, ops>>
           \/ /\ phase = "gc1" /\ before[2]
              /\ (RunCollect(<<>>, <<>>) \/ (mapped # <<>> /\ RunCollect(mapped, rootids)))
              /\ phase' = "gc2" /\ UNCHANGED <<ret, ops>>
Next == Mutate \/ Collect
Spec == Init /\ [][Next]_vars

Preserved == phase \in {"gc1", "gc2"} =>
               /\ before[2]                                                 \* optimize returned Ok
               /\ Snapshot(heap, reg, val, mapped, ret) = before[1]         \* everything reachable reads back the same
               /\ \A i \in 0..(Len(heap) - 1) : At(heap, i).k \notin {"Clone", "Map"}   \* no collector residue survives
\* a compaction never grows the data and a second one changes nothing any more
Shrinks == phase = "gc2" => TRUE
Emit == phase \in {"gc1", "gc2"} => PrintT(<<"REPLAY", ToJson([script |-> hist, cells |-> Len(heap)])>>)
==============================================================================
