SPECIFICATION Spec
CONSTANTS N = 4
  ALPHABET = {"<", ">", ".", "~", "=", "!", "?", "|", "-", "a", "SP"}
INVARIANT Emit
CHECK_DEADLOCK FALSE
