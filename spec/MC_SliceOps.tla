------------------------------ MODULE MC_SliceOps ------------------------------
(* Mode G: operations on slices and on concatenations that contain slices - length, index, symbol access, cast to a list,
   equality - for every range over 0..2 (including ranges that end before they start) of the input list, a text and a
   concatenation; shapes too deep for the size-bounded enumeration of MC_Programs. *)
EXTENDS Lang, Json
Nums == {"n0", "n1", "n2"}
S(src, r, a, b) == <<"app">> \o src \o <<r, a, b>>
\* (the last source is a concatenation of three keyed pairs: its keys sit at the positions ranges start and end at)
Srcs == { <<"val">>, <<"strab">>, <<"cat", "val", "n5">>, <<"cat", "cat", "pair", "syma", "n1", "pair", "symb", "n2", "pair", "symc", "n5">> }
Slices == { S(src, r, a, b) : src \in Srcs, r \in {"rng", "rnge"}, a \in Nums, b \in Nums }
Shapes == { <<"leni">> \o s : s \in Slices }
          \cup { <<"acc">> \o s \o <<i>> : s \in Slices, i \in Nums \cup {"syma", "symb", "symc"} }
          \cup { <<"cast">> \o s \o <<"val">> : s \in Slices }
          \cup { <<"leni", "cat">> \o s \o <<"n5">> : s \in Slices }
          \cup { <<"acc", "cat">> \o s \o <<"n5", i>> : s \in Slices, i \in Nums \cup {"syma"} }
          \cup { <<"acc", "cat", "n5">> \o s \o <<i>> : s \in Slices, i \in Nums }
          \cup { <<"cast", "cat">> \o s \o <<"n5", "val">> : s \in Slices }
          \cup { <<"eq", "cat">> \o s \o <<"n5", "cat">> \o s2 \o <<"n5">> : s \in Slices, s2 \in { S(<<"val">>, "rng", a, b) : a, b \in Nums } }
Narrow == { <<k>> \o s \o <<"rng", a, b>> \o tail : k \in {"app"}, s \in { S(<<"val">>, "rng", x, y) : x, y \in Nums } \cup { <<"rng", x, y>> : x, y \in Nums \cup {"n5"} },
                                                    a \in Nums, b \in Nums, tail \in {<<>>} }
Wrapped == { <<"leni">> \o n : n \in Narrow } \cup { <<"acc">> \o n \o <<i>> : n \in Narrow, i \in {"n0", "n1"} } \cup { <<"cast">> \o n \o <<"val">> : n \in Narrow } \cup Narrow
VARIABLES ast
Init == ast \in Shapes \cup Wrapped
Next == UNCHANGED ast
Spec == Init /\ [][Next]_ast
Emit == WellFormed(TreeOf(ast)) => PrintT(<<"REPLAY", ToJson([ast |-> ast, toks |-> Texts(Pr(TreeOf(ast)))])>>)
==============================================================================
