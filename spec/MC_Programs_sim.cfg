SPECIFICATION Spec
CONSTANTS N = 12
  ALPHA = {"n0", "n1", "n2", "n5", "nmax", "f05", "f2", "f15", "unit", "tru", "fls", "syma", "symb", "strs", "stre", "strab", "val", "ida", "idb", "idc", "acc", "pow", "mul", "div", "idiv", "rem", "add", "sub", "shl", "shr", "band", "bxor", "bor", "pair", "lst", "lt", "le", "gt", "ge", "eq", "ne", "and", "xor", "or", "app", "appto", "cond", "condf", "els", "com", "seq", "lefti", "neg", "abs", "bnot", "not", "tis", "reap", "emp", "righti", "leni", "nest", "se", "cat", "part", "rng", "rngs", "rnge", "rngx", "tyof", "tyeq", "cast", "pfa", "pfb", "sfa", "ifa", "f0", "f1", "f5"}
INVARIANT Emit
CHECK_DEADLOCK FALSE
