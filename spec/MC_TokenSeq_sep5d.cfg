SPECIFICATION Spec
CONSTANTS L = 5
 CLASSES = {"val", "sep", "blankline", "nopen", "nclose", "sopen", "sclose", "open", "close", "suf"}
 SEPS = {"blank"}
 BALANCED = TRUE
INVARIANT Emit
CHECK_DEADLOCK FALSE
