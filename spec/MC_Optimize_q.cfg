SPECIFICATION Spec
CONSTANT MaxOps = 4
CONSTANT MaxCells = 7
INVARIANT Preserved
INVARIANT Emit
CHECK_DEADLOCK FALSE
