SPECIFICATION Spec
CONSTANT W = 6
INVARIANT RangeSafeIsMathematical
CHECK_DEADLOCK FALSE
