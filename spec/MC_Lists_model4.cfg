SPECIFICATION Spec
CONSTANTS MAXN = 4
  MODE = "model"
INVARIANT SimpleFinds
INVARIANT BasicFinds
CHECK_DEADLOCK FALSE
