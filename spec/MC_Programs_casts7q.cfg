SPECIFICATION Spec
CONSTANTS N = 7
  ALPHA = {"val", "n0", "n1", "strab", "cast", "rng", "app"}
INVARIANT Emit
CHECK_DEADLOCK FALSE
