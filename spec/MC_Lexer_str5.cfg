SPECIFICATION Spec
CONSTANTS N = 5
  ALPHABET = {"DQ", "SQ", "a", "NL", "BS", "SP"}
INVARIANT Emit
CHECK_DEADLOCK FALSE
