SPECIFICATION Spec
CONSTANT FULL = TRUE
INVARIANT Emit
CHECK_DEADLOCK FALSE
