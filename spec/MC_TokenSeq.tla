----------------------------- MODULE MC_TokenSeq -----------------------------
(* Mode G for C03 / C04 / C05: every sequence of token CLASSES up to length L, each class followed by one of the
   separators SEPS (nothing, a blank, an annotation between blanks), as source text.  The classes cover every adjacency
   role the parser distinguishes: value, identifier, unit literal, prefix / suffix / binary / right-to-left / optional
   binary operators, conditional and else operators, the three opening and closing brackets, the sub-expression
   separators `;` and blank line, the expression terminator `;;`, and the implicit list (two values with a blank).
   No claim is made here about which sequences are well formed: totality (C03) is about EVERY input. *)
EXTENDS Integers, Sequences, TLC, Json
CONSTANTS L, CLASSES, SEPS, BALANCED
Text(c) == CASE c = "val" -> "5" [] c = "id" -> "a" [] c = "unit" -> "()" [] c = "str" -> "\"s\"" [] c = "sym" -> ":k"
             [] c = "pre" -> "--" [] c = "suf" -> "~~" [] c = "bin" -> "+" [] c = "acc" -> "." [] c = "pair" -> "=" [] c = "comma" -> ","
             [] c = "cond" -> "?>" [] c = "else" -> "|>" [] c = "apply" -> "<~" [] c = "reapply" -> "^~" [] c = "and" -> "&&"
             [] c = "open" -> "(" [] c = "close" -> ")" [] c = "nopen" -> "{" [] c = "nclose" -> "}" [] c = "sopen" -> "[" [] c = "sclose" -> "]"
             [] c = "sep" -> ";" [] c = "blankline" -> "\n\n" [] c = "term" -> ";;" [] c = "suflen" -> ".|" [] c = "prefixid" -> "f`" [] c = "infixid" -> "`f`"
\* (annot0 / lineannot: an annotation / a comment line with NO blank before the next token)
SepText(s) == CASE s = "none" -> "" [] s = "blank" -> " " [] s = "annot" -> " @x " [] s = "nl" -> "\n" [] s = "annot0" -> " @x" [] s = "lineannot" -> " @@ c\n" [] OTHER -> " "
\* BALANCED = TRUE: only sequences whose brackets nest properly are grown and emitted (a much higher share of them is accepted
\* by the pipeline, which is what C04 / C05 need); FALSE: every sequence (totality, C03)
VARIABLES seq, stk
Opener(c) == c \in {"open", "nopen", "sopen"}
Closer(c) == c \in {"close", "nclose", "sclose"}
Match(o, c) == <<o, c>> \in {<<"open", "close">>, <<"nopen", "nclose">>, <<"sopen", "sclose">>}
Init == seq = <<>> /\ stk = <<>>
Next == /\ Len(seq) < L
        /\ \E c \in CLASSES, s \in SEPS :
             /\ seq' = Append(seq, <<c, s>>)
             /\ IF ~BALANCED THEN stk' = stk
                ELSE IF Opener(c) THEN stk' = Append(stk, c) /\ Len(stk) + 1 <= L - Len(seq) - 1     \* leave room to close
                ELSE IF Closer(c) THEN stk # <<>> /\ Match(stk[Len(stk)], c) /\ stk' = SubSeq(stk, 1, Len(stk) - 1)
                ELSE stk' = stk
Spec == Init /\ [][Next]_<<seq, stk>>
Parts == [i \in DOMAIN seq |-> <<Text(seq[i][1]), SepText(seq[i][2])>>]
Emit == (seq # <<>> /\ (BALANCED => stk = <<>>)) =>
          PrintT(<<"REPLAY", ToJson([parts |-> Parts, classes |-> [i \in DOMAIN seq |-> seq[i][1]], seps |-> [i \in DOMAIN seq |-> seq[i][2]]])>>)
==============================================================================
