----------------------------- MODULE MC_TokenSeq -----------------------------
(* Mode G for C03 / C04 / C05: every sequence of token CLASSES up to length L, each class followed by one of the
   separators SEPS (nothing, a blank, an annotation between blanks), as source text.  The classes cover every adjacency
   role the parser distinguishes: value, identifier, unit literal, prefix / suffix / binary / right-to-left / optional
   binary operators, conditional and else operators, the three opening and closing brackets, the sub-expression
   separators `;` and blank line, the expression terminator `;;`, and the implicit list (two values with a blank).
   No claim is made here about which sequences are well formed: totality (C03) is about EVERY input. *)
EXTENDS Integers, Sequences, TLC, Json
CONSTANTS L, CLASSES, SEPS
Text(c) == CASE c = "val" -> "5" [] c = "id" -> "a" [] c = "unit" -> "()" [] c = "str" -> "\"s\"" [] c = "sym" -> ":k"
             [] c = "pre" -> "--" [] c = "suf" -> "~~" [] c = "bin" -> "+" [] c = "acc" -> "." [] c = "pair" -> "=" [] c = "comma" -> ","
             [] c = "cond" -> "?>" [] c = "else" -> "|>" [] c = "apply" -> "<~" [] c = "reapply" -> "^~" [] c = "and" -> "&&"
             [] c = "open" -> "(" [] c = "close" -> ")" [] c = "nopen" -> "{" [] c = "nclose" -> "}" [] c = "sopen" -> "[" [] c = "sclose" -> "]"
             [] c = "sep" -> ";" [] c = "blankline" -> "\n\n" [] c = "term" -> ";;" [] c = "suflen" -> ".|" [] c = "prefixid" -> "f`" [] c = "infixid" -> "`f`"
SepText(s) == CASE s = "none" -> "" [] s = "blank" -> " " [] s = "annot" -> " @x " [] s = "nl" -> "\n" [] OTHER -> " "
VARIABLES seq
Init == seq = <<>>
Next == Len(seq) < L /\ \E c \in CLASSES, s \in SEPS : seq' = Append(seq, <<c, s>>)
Spec == Init /\ [][Next]_seq
Parts == [i \in DOMAIN seq |-> <<Text(seq[i][1]), SepText(seq[i][2])>>]
Emit == seq # <<>> => PrintT(<<"REPLAY", ToJson([parts |-> Parts, classes |-> [i \in DOMAIN seq |-> seq[i][1]], seps |-> [i \in DOMAIN seq |-> seq[i][2]]])>>)
==============================================================================
