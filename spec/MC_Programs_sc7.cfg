SPECIFICATION Spec
CONSTANTS N = 7
  ALPHA = {"ida", "idb", "idc", "fls", "and", "or", "cond", "els"}
INVARIANT Emit
CHECK_DEADLOCK FALSE
