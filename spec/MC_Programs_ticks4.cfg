SPECIFICATION Spec
CONSTANTS N = 4
  ALPHA = {"val", "n1", "n5", "syma", "ida", "idb", "pfa", "pfb", "sfa", "ifa", "add", "lst", "nest", "app", "pair", "com"}
INVARIANT Emit
CHECK_DEADLOCK FALSE
