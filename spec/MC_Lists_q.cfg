SPECIFICATION Spec
CONSTANTS MAXN = 2
  MODE = "cases"
INVARIANT Emit
CHECK_DEADLOCK FALSE
