-------------------------------- MODULE Lists --------------------------------
(* Lists as C16 states them, in two layers.
   PROPERTY LAYER: the abstract list - a finite sequence of items; length, indexing (an item inside 0..n-1, NO ITEM
   outside, never an error), iteration in insertion order, and look-up of a symbol: the value of the pair keyed by
   that symbol if the list holds one, ABSENT otherwise - never an error - whatever else the list holds.  A
   concatenation behaves like the list of the items of both operands.
   IMPLEMENTATION-SHAPED LAYER: the two look-up structures of the shipped stores over small integers,
     Simple: every item address is placed into an open-addressing table by ADDRESS modulo n (0 marks an empty slot),
             a look-up probes all n slots starting at SYMBOL modulo n (data/src/runtime.rs end_list,
             get_list_item_with_symbol);
     Basic:  the symbol-keyed pairs are written beside the items, sorted by symbol at end_list and binary-searched
             (data/src/basic/garnish/garnish_impl.rs, search.rs),
   and the design-level theorem checked by TLC (MC_Lists): both find exactly what the abstract list finds. *)
EXTENDS Integers, Sequences, FiniteSets
\* ---------------------------------------------------------------- property layer (items are value records of Values.tla)
IsKeyed(it) == it.t = "pair" /\ it.l.t = "sym"
AbsLen(items) == Len(items)
AbsIndex(items, i) == IF i >= 0 /\ i < Len(items) THEN <<items[i + 1]>> ELSE <<>>
AbsKeys(items) == { items[k].l.n : k \in { j \in DOMAIN items : IsKeyed(items[j]) } }
AbsDistinct(items) == Cardinality(AbsKeys(items)) = Cardinality({ j \in DOMAIN items : IsKeyed(items[j]) })
AbsLookup(items, name) == LET hits == { j \in DOMAIN items : IsKeyed(items[j]) /\ items[j].l.n = name } IN
                          IF hits = {} THEN <<>> ELSE <<items[CHOOSE j \in hits : TRUE].r>>

\* ---------------------------------------------------------------- implementation-shaped layer (small integers)
\* an item cell: [k |-> "atom" | "keyed" | "nskey", s |-> symbol, v |-> value, a |-> address]
CellOK(cells) == /\ \A i, j \in DOMAIN cells : (i # j /\ cells[i].k = "keyed" /\ cells[j].k = "keyed") => cells[i].s # cells[j].s
                 \* distinct cells have distinct addresses, except that equal atoms may be interned to one address; address 0 is the unit constant
                 /\ \A i, j \in DOMAIN cells : (i # j /\ cells[i].a = cells[j].a) => (cells[i].k = "atom" /\ cells[j].k = "atom")
                 /\ \A i \in DOMAIN cells : cells[i].a = 0 => cells[i].k = "atom"
CellLookup(cells, sym) == LET hits == { j \in DOMAIN cells : cells[j].k = "keyed" /\ cells[j].s = sym } IN
                          IF hits = {} THEN <<"none", 0>> ELSE <<"some", cells[CHOOSE j \in hits : TRUE].v>>
\* ---- Simple
RECURSIVE Place(_, _, _, _, _)
Place(n, ordered, a, i, count) == IF ordered[i + 1] = 0 THEN [ok |-> TRUE, o |-> [ordered EXCEPT ![i + 1] = a]]
                                  ELSE IF count + 1 > n THEN [ok |-> FALSE, o |-> ordered]
                                  ELSE Place(n, ordered, a, (i + 1) % n, count + 1)
RECURSIVE EndList(_, _, _)
EndList(cells, ordered, k) == LET n == Len(cells) IN
                              IF k > n THEN [ok |-> TRUE, o |-> ordered]
                              ELSE LET p == Place(n, ordered, cells[k].a, cells[k].a % n, 0) IN IF ~p.ok THEN p ELSE EndList(cells, p.o, k + 1)
CellAt(cells, a) == IF a = 0 \/ ~\E i \in DOMAIN cells : cells[i].a = a THEN [k |-> "atom", s |-> 0, v |-> 0, a |-> 0] ELSE cells[CHOOSE i \in DOMAIN cells : cells[i].a = a]
RECURSIVE Probe(_, _, _, _, _)
Probe(cells, ordered, sym, i, count) ==
  LET n == Len(cells)  it == CellAt(cells, ordered[i + 1]) IN
  IF it.k = "keyed" /\ it.s = sym THEN <<"some", it.v>>
  ELSE IF count + 1 > n THEN <<"none", 0>>              \* unkeyed and non-symbol-keyed slots are skipped
  ELSE Probe(cells, ordered, sym, (i + 1) % n, count + 1)
SimpleLookup(cells, sym) == LET n == Len(cells) IN
                            IF n = 0 THEN <<"none", 0>>
                            ELSE LET e == EndList(cells, [i \in 1..n |-> 0], 1) IN IF ~e.ok THEN <<"endlist-err", 0>> ELSE Probe(cells, e.o, sym, sym % n, 0)
\* ---- Basic
Assocs(cells) == LET keyed == SelectSeq(cells, LAMBDA x : x.k = "keyed")
                     RECURSIVE Ins(_, _)
                     Ins(sorted, x) == IF sorted = <<>> THEN <<x>> ELSE IF x.s < sorted[1].s THEN <<x>> \o sorted ELSE <<sorted[1]>> \o Ins(Tail(sorted), x)
                     RECURSIVE Sort(_, _)
                     Sort(acc, k) == IF k > Len(keyed) THEN acc ELSE Sort(Ins(acc, keyed[k]), k + 1)
                 IN Sort(<<>>, 1)
RECURSIVE BSearch(_, _, _, _)
BSearch(as, sym, base, size) == IF size > 1 THEN LET half == size \div 2  mid == base + half IN BSearch(as, sym, IF as[mid + 1].s > sym THEN base ELSE mid, size - half)
                                ELSE IF as[base + 1].s = sym THEN <<"some", as[base + 1].v>> ELSE <<"none", 0>>
BasicLookup(cells, sym) == LET as == Assocs(cells) IN IF as = <<>> THEN <<"none", 0>> ELSE BSearch(as, sym, 0, Len(as))
==============================================================================
