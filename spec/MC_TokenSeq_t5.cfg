SPECIFICATION Spec
CONSTANTS L = 5
 CLASSES = {"val", "pre", "suf", "bin", "comma", "cond", "else", "open", "close", "nopen", "nclose", "sopen", "sclose", "sep", "term"}
 SEPS = {"blank", "none"}
 BALANCED = FALSE
INVARIANT Emit
CHECK_DEADLOCK FALSE
