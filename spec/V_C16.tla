-------------------------------- MODULE V_C16 --------------------------------
(* Mode V for C16: every observation is one list (and optionally its concatenation with a second list) built on both
   stores through start_list / add_to_list / end_list.  TLC evaluates the abstract list of Lists.tla on the item
   descriptions the list was built from and compares everything the stores and the runtime report:
     data level     get_list_len, get_list_item at every index inside and outside 0..n-1, get_list_item_iter,
                    get_list_item_with_symbol for present and absent symbols;
     runtime level  AccessLengthInternal, Access and Apply with integer and symbol operands, on the list and on the
                    concatenation.
   Outside the range / for an absent key the answer must be "no item" (data level) or unit (runtime) - never an error. *)
EXTENDS Lists, Values, TLC, Json, IOUtils
Obs == ndJsonDeserialize(IOEnv.OBS)
VARIABLE c
Init == c \in DOMAIN Obs
Next == UNCHANGED c
Spec == Init /\ [][Next]_c
Has(o, f) == f \in DOMAIN o
Same(exp, got) == IF exp = <<>> THEN got.r = "none" ELSE got.r = "some" /\ SameVal(exp[1], got.v)
SameRt(exp, got) == got.r = "ok" /\ SameVal(IF exp = <<>> THEN U ELSE exp[1], got.v)
W(store, level, why) == [prop |-> "C16", store |-> store, level |-> level, why |-> why, kf |-> "NEW"]
(* known finding C16-basic-get-list-item-past-end: BasicGarnishData::get_list_item answers an index >= n with
   Err("Invalid list item index") (pinned by the repository test get_list_item_invalid_index); signature: store basic,
   data level, EVERY wrong index answer is that error at an index >= n. *)
PastEndOnly(items, r, bad) == r.store = "basic" /\ \A k \in bad : r.index[k].i >= Len(items) /\ r.index[k].r = "err" /\ r.index[k].msgk = "Invalid list item index"
Outside(items, i) == i < 0 \/ i >= Len(items)
DataFails(o, r) ==
  LET items == o.items
      badIdx == { k \in DOMAIN r.index : ~Same(AbsIndex(items, r.index[k].i), r.index[k]) }
      badLook == { k \in DOMAIN r.lookup : ~Same(AbsLookup(items, r.lookup[k].s), r.lookup[k]) } IN
  (IF r.len = AbsLen(items) THEN <<>> ELSE <<W(r.store, "data", "wrong length")>>)
  \o (IF badIdx = {} THEN <<>>
      ELSE LET k == CHOOSE k \in badIdx : TRUE  g == r.index[k] IN
           <<[W(r.store, "data", IF Outside(items, g.i) THEN (IF g.r = "none" THEN "?" ELSE IF g.r = "some" THEN "an index outside 0..n-1 yields an item"
                                                                ELSE "an index outside 0..n-1 is an error, not 'no item' (" \o g.r \o ")")
                                ELSE "an index inside 0..n-1 does not yield its item (" \o g.r \o ")")
              EXCEPT !.kf = IF PastEndOnly(items, r, badIdx) THEN "C16-basic-get-list-item-past-end" ELSE "NEW"]>>)
  \o (IF r.iter.r = "ok" /\ Len(r.iter.v) = Len(items) /\ \A k \in DOMAIN items : SameVal(items[k], r.iter.v[k]) THEN <<>> ELSE <<W(r.store, "data", "iteration is not the items in insertion order")>>)
  \o (LET Part(a, b) == LET lo == IF a < 0 THEN 0 ELSE a  hi == IF b > Len(items) THEN Len(items) ELSE b IN IF hi <= lo THEN <<>> ELSE SubSeq(items, lo + 1, hi)
          badPart == { k \in DOMAIN r.parts : LET g == r.parts[k]  e == Part(g.a, g.b) IN ~(g.r = "ok" /\ Len(g.v) = Len(e) /\ \A i \in DOMAIN e : SameVal(e[i], g.v[i])) } IN
      IF badPart = {} THEN <<>> ELSE <<W(r.store, "data", "iteration over a part of the list (extents) does not yield the items from its start up to its end")>>)
  \o (IF badLook = {} THEN <<>>
      ELSE LET k == CHOOSE k \in badLook : TRUE  g == r.lookup[k] IN
           <<W(r.store, "data", IF g.r \notin {"some", "none"} THEN "a symbol look-up is an error (" \o g.r \o ")"
                                ELSE IF AbsLookup(items, g.s) = <<>> THEN "a symbol look-up finds an absent key"
                                ELSE IF g.r = "none" THEN "a symbol look-up misses a present key" ELSE "a symbol look-up returns the wrong value")>>)
RtFails(o, r, t) ==
  LET items == IF t.on = "list" THEN o.items ELSE o.items \o o.second
      lvl == "runtime/" \o t.on
      \* applying a value to a key is defined for lists (it is the access); for a concatenation the language defines only the access
      Ap(e, g) == t.on # "list" \/ SameRt(e, g.apply)
      badIdx == { k \in DOMAIN t.index : ~(SameRt(AbsIndex(items, t.index[k].i), t.index[k]) /\ Ap(AbsIndex(items, t.index[k].i), t.index[k])) }
      badLook == { k \in DOMAIN t.lookup : ~(SameRt(AbsLookup(items, t.lookup[k].s), t.lookup[k]) /\ Ap(AbsLookup(items, t.lookup[k].s), t.lookup[k])) } IN
  (IF t.len.r = "ok" /\ SameVal(MkInt(Len(items)), t.len.v) THEN <<>> ELSE <<W(r.store, lvl, "wrong length")>>)
  \o (IF badIdx = {} THEN <<>>
      ELSE LET k == CHOOSE k \in badIdx : TRUE  g == t.index[k] IN
           <<W(r.store, lvl, IF g.r # "ok" \/ (t.on = "list" /\ g.apply.r # "ok") THEN "indexing is an error (" \o g.r \o "/" \o g.apply.r \o ")"
                             ELSE IF Outside(items, g.i) THEN "an index outside 0..n-1 does not yield unit" ELSE "an index inside 0..n-1 does not yield its item")>>)
  \o (IF badLook = {} THEN <<>>
      ELSE LET k == CHOOSE k \in badLook : TRUE  g == t.lookup[k] IN
           <<W(r.store, lvl, IF g.r # "ok" \/ (t.on = "list" /\ g.apply.r # "ok") THEN "a symbol look-up is an error (" \o g.r \o "/" \o g.apply.r \o ")"
                             ELSE IF AbsLookup(items, g.s) = <<>> THEN "a symbol look-up of an absent key does not yield unit" ELSE "a symbol look-up does not yield the value of its pair")>>)
RECURSIVE Cat(_, _)
Cat(f, k) == IF k = 0 THEN <<>> ELSE Cat(f, k - 1) \o f[k]
RunFails(o, r) == IF r.status # "ok" THEN <<W(r.store, "build", "the list cannot be built: " \o r.status)>>
                  ELSE DataFails(o, r) \o Cat([k \in DOMAIN r.rt |-> RtFails(o, r, r.rt[k])], Len(r.rt))
Fails(o) == IF Has(o, "outcome") THEN <<W("both", "worker", "the worker did not return: " \o o.outcome)>>
            ELSE RunFails(o, o.runs[1]) \o RunFails(o, o.runs[2])
Report == Fails(Obs[c]) = <<>> \/ PrintT(<<"FAIL", ToJson([c |-> c, fails |-> Fails(Obs[c])])>>)
==============================================================================
