SPECIFICATION Spec
CONSTANT LEN = 2
INVARIANT Emit
CHECK_DEADLOCK FALSE
