-------------------------------- MODULE Store --------------------------------
(* BasicGarnishData keeps all its tables in ONE heap vector cut into consecutive blocks (instructions, jump table,
   symbol table, data); each block has a cursor, a size and a growth policy.  A push into a full block reallocates the
   whole heap: every block is copied to a fresh heap with recomputed starts (data/src/basic/internal.rs reallocate_heap,
   push_to_block; storage.rs next_size).  Addresses handed out are block-relative.
   PROPERTY LAYER (Tables): independent append-only tables - a value pushed into table b reads back unchanged at the
   index it was given, whatever is pushed afterwards into any table.
   This module is the implementation-shaped layer with the refinement checked by TLC for every interleaving of pushes,
   every initial size 0, 1, 2 and every growth policy that can make progress (additive 1 or 2, multiplicative 2 from a
   non-zero size), chosen per block when the block is first used:
     ReadBack    heap[start[b] + i] = tab[b][i] for every block and index  (the refinement mapping),
     Layout      blocks are consecutive, cursors stay inside, the heap is exactly the sum of the sizes,
     AppendOnly  the abstract tables only grow at their end. *)
EXTENDS Integers, Sequences, TLC
CONSTANTS L
Blocks == <<"ins", "jmp", "sym", "data">>          \* heap order
B == { Blocks[i] : i \in DOMAIN Blocks }
Inits == {0, 1, 2}
Policies == { <<"add", 1>>, <<"add", 2>>, <<"mul", 2>> }
Progress(i, p) == p[1] = "add" \/ i > 0
VARIABLES heap, start, cursor, size, pol, tab, used, n, hist
vars == <<heap, start, cursor, size, pol, tab, used, n, hist>>
RECURSIVE Sum(_, _, _)
Sum(f, i, j) == IF i > j THEN 0 ELSE f[Blocks[i]] + Sum(f, i + 1, j)
Pos(b) == CHOOSE k \in DOMAIN Blocks : Blocks[k] = b
Starts(sz) == [b \in B |-> Sum(sz, 1, Pos(b) - 1)]
Init == /\ size = [b \in B |-> 0] /\ pol = [b \in B |-> <<"add", 1>>] /\ start = [b \in B |-> 0] /\ heap = <<>>
        /\ cursor = [b \in B |-> 0] /\ tab = [b \in B |-> <<>>] /\ used = {} /\ n = 0 /\ hist = <<>>
NextSize(sz, p, b) == IF p[b][1] = "add" THEN sz[b] + p[b][2] ELSE sz[b] * p[b][2]
\* reallocate_heap: fresh heap with the new sizes, recomputed starts, the first `cursor` cells of every block copied
Realloc(h, st, sz, nsz) ==
  LET nst == Starts(nsz)
      total == Sum(nsz, 1, Len(Blocks))
      owner(i) == CHOOSE x \in B \cup {"none"} : IF x = "none" THEN ~\E y \in B : i > nst[y] /\ i <= nst[y] + cursor[y]
                                                 ELSE i > nst[x] /\ i <= nst[x] + cursor[x]
  IN [h |-> [i \in 1..total |-> IF owner(i) = "none" THEN <<"Empty", 0>> ELSE h[st[owner(i)] + (i - nst[owner(i)])]], st |-> nst, sz |-> nsz]
\* the first use of a block fixes its initial size and policy (new_with_settings): the heap is laid out again
Configure(b, i, p) == LET nsz == [size EXCEPT ![b] = i] IN Realloc(heap, start, size, nsz)
Push(b) ==
  /\ n < L
  /\ \E i \in Inits, p \in Policies :
       /\ (IF b \in used THEN i = 0 /\ p = pol[b] ELSE Progress(i, p))        \* settings are chosen once, at the first use
       /\ LET c == IF b \in used THEN [h |-> heap, st |-> start, sz |-> size] ELSE Configure(b, i, p)
              pl == IF b \in used THEN pol ELSE [pol EXCEPT ![b] = p]
              v == <<b, cursor[b]>>
              grow == cursor[b] >= c.sz[b]
              r == IF grow THEN Realloc(c.h, c.st, c.sz, [c.sz EXCEPT ![b] = NextSize(c.sz, pl, b)]) ELSE c
          IN /\ cursor[b] < r.sz[b]                      \* a policy that makes progress always leaves room
             /\ heap' = [r.h EXCEPT ![r.st[b] + cursor[b] + 1] = v]
             /\ start' = r.st /\ size' = r.sz /\ pol' = pl
             /\ hist' = IF b \in used THEN Append(hist, [b |-> b]) ELSE Append(hist, [b |-> b, init |-> i, kind |-> p[1], k |-> p[2]])
  /\ cursor' = [cursor EXCEPT ![b] = @ + 1]
  /\ tab' = [tab EXCEPT ![b] = Append(@, <<b, cursor[b]>>)]
  /\ used' = used \cup {b}
  /\ n' = n + 1
Next == \E b \in B : Push(b)
Spec == Init /\ [][Next]_vars
\* ---- refinement to independent tables + layout sanity
ReadBack == \A b \in B : \A i \in 1..cursor[b] : heap[start[b] + i] = tab[b][i]
Layout == /\ \A b \in B : cursor[b] <= size[b] /\ Len(tab[b]) = cursor[b]
          /\ \A k \in 1..(Len(Blocks) - 1) : start[Blocks[k]] + size[Blocks[k]] = start[Blocks[k + 1]]
          /\ Len(heap) = Sum(size, 1, Len(Blocks))
AppendOnly == [][\A b \in B : Len(tab'[b]) >= Len(tab[b]) /\ SubSeq(tab'[b], 1, Len(tab[b])) = tab[b]]_vars
==============================================================================
