SPECIFICATION Spec
CONSTANTS L = 3
 CLASSES = {"val", "id", "unit", "str", "sym", "pre", "suf", "bin", "acc", "pair", "comma", "cond", "else", "apply", "reapply", "and", "open", "close", "nopen", "nclose", "sopen", "sclose", "sep", "blankline", "term", "suflen", "prefixid", "infixid"}
 SEPS = {"blank", "none", "annot", "nl"}
 BALANCED = FALSE
INVARIANT Emit
CHECK_DEADLOCK FALSE
