SPECIFICATION Spec
CONSTANT W = 4
INVARIANT RangeSafeIsMathematical
CHECK_DEADLOCK FALSE
