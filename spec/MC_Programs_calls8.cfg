SPECIFICATION Spec
CONSTANTS N = 8
  ALPHA = {"val", "n1", "add", "nest", "app", "appto", "emp"}
INVARIANT Emit
CHECK_DEADLOCK FALSE
