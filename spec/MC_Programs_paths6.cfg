SPECIFICATION Spec
CONSTANTS N = 6
  ALPHA = {"val", "syma", "symb", "n0", "n1", "acc", "app", "cat", "rng", "leni", "cast"}
INVARIANT Emit
CHECK_DEADLOCK FALSE
