-------------------------------- MODULE Defer --------------------------------
(* Property layer of C08: which (operation, left type, right type) combinations the language DEFINES a result for -
   a frozen transcription of the dispatch arms of the runtime at the pinned commit (runtime/src/runtime/*.rs); every
   other combination must be offered to the host exactly once and yield unit if the host declines. *)
EXTENDS VM
Ty(v) == TypeName(v)
BinaryDeferring == ArithOps \cup {"Access", "Apply", "ApplyType"} \cup RangeOps
UnaryDeferring == UnaryNumOps \cup {"AccessLeftInternal", "AccessRightInternal", "AccessLengthInternal", "EmptyApply"}
SymLike == {"Symbol", "SymbolList"}
CastTarget(r) == IF r.t = "type" THEN r.v ELSE Ty(r)
Defined(op, l, r) ==
  LET lt == Ty(l)  rt == Ty(r) IN
  CASE op \in ArithOps -> lt = "Number" /\ rt = "Number"
    [] op \in UnaryNumOps -> lt = "Number"
    [] op \in RangeOps -> lt = "Number" /\ rt = "Number"
    [] op = "Access" -> \/ (lt \in SymLike /\ rt \in SymLike) \/ (lt = "SymbolList" /\ rt = "Number") \/ (lt = "Number" /\ rt = "SymbolList")
                        \/ (lt = "Symbol" /\ rt = "Number") \/ (lt = "Number" /\ rt = "Symbol")
                        \/ (lt \in {"Pair", "List", "CharList", "ByteList", "Range", "Concatenation", "Slice"} /\ rt = "Number")
                        \/ (lt \in {"Pair", "List", "Concatenation", "Slice"} /\ rt = "Symbol")
                           \* text, bytes and ranges have no symbol access: list.rs access_with_symbol reports "unsupported types",
                           \* which the caller is meant to absorb (the mechanism C08 names), so these are UNDEFINED combinations
    [] op \in {"AccessLeftInternal", "AccessRightInternal"} -> lt \in {"Pair", "Range", "Slice", "Concatenation"}
    [] op = "AccessLengthInternal" -> lt \in {"Pair", "List", "CharList", "ByteList", "Range", "Slice", "Concatenation"}
    [] op = "EmptyApply" -> lt \in {"Expression", "External", "Partial"}
    [] op = "Apply" -> \/ lt \in {"Expression", "External", "Partial"}
                       \/ (lt = "Symbol" /\ rt = "SymbolList") \/ (lt = "SymbolList" /\ rt \in SymLike)
                       \/ (lt \in {"Range", "Slice"} /\ rt = "Range")
                       \/ (lt \in {"SymbolList", "List", "Pair"} /\ rt = "Number")
                       \/ (lt \in {"Pair", "List"} /\ rt = "Symbol") \/ (lt = "List" /\ rt = "SymbolList")
                       \/ (lt \in {"List", "Concatenation", "CharList", "ByteList", "SymbolList"} /\ rt = "Range")
    [] op = "ApplyType" -> LET tg == CastTarget(r) IN
                           \/ lt = tg \/ (lt = "CharList" /\ tg = "Number") \/ tg \in {"CharList", "ByteList", "Symbol", "True", "False"}
                           \/ (lt = "Number" /\ tg \in {"Char", "Byte"}) \/ (lt = "Char" /\ tg \in {"Number", "Byte"}) \/ (lt = "Byte" /\ tg \in {"Number", "Char"})
                           \/ (lt = "CharList" /\ tg = "Char") \/ (lt \in {"SymbolList", "Range", "CharList", "ByteList", "Concatenation", "Slice"} /\ tg = "List")
                           \/ lt = "Unit"
    [] OTHER -> TRUE
==============================================================================
