-------------------------------- MODULE V_C07 --------------------------------
(* Mode V for C07: stepping a successfully built program never panics or aborts the host, on either data
   implementation.  Observations are whole runs (status per store); a run whose status is "panic" (a panic unwound out
   of execute_current_instruction), or that killed / hung the worker process, violates the property; Err is allowed. *)
EXTENDS Integers, Sequences, TLC, Json, IOUtils, KnownFindings
Obs == ndJsonDeserialize(IOEnv.OBS)
VARIABLE c
Init == c \in DOMAIN Obs
Next == UNCHANGED c
Spec == Init /\ [][Next]_c
Bad(r) == r.status \in {"panic", "injecterr"}
Fails(o) == IF "runs" \notin DOMAIN o THEN <<[store |-> "both", why |-> o.outcome, msg |-> "", msgk |-> "", kf |-> KF_C07(o, o)]>>
            ELSE LET f(r) == [store |-> r.store, why |-> r.status, msg |-> (IF "msg" \in DOMAIN r THEN r.msg ELSE ""), msgk |-> (IF "msgk" \in DOMAIN r THEN r.msgk ELSE ""), kf |-> KF_C07(o, r)] IN
                 SelectSeq([i \in DOMAIN o.runs |-> f(o.runs[i])], LAMBDA x : x.why \in {"panic", "injecterr"})
Report == Fails(Obs[c]) = <<>> \/ PrintT(<<"FAIL", ToJson([c |-> c, src |-> IF "src" \in DOMAIN Obs[c] THEN Obs[c].src ELSE "?", fails |-> Fails(Obs[c])])>>)
==============================================================================
