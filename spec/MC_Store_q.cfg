SPECIFICATION Spec
CONSTANT L = 4
INVARIANT ReadBack
INVARIANT Layout
INVARIANT Emit
PROPERTY AppendOnly
CHECK_DEADLOCK FALSE
