SPECIFICATION Spec
CONSTANTS L = 4
 CLASSES = {"val", "pre", "bin", "comma", "open", "close", "nopen", "nclose"}
 SEPS = {"blank", "annot0", "lineannot"}
 BALANCED = TRUE
INVARIANT Emit
CHECK_DEADLOCK FALSE
