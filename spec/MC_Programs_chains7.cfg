SPECIFICATION Spec
CONSTANTS N = 7
  ALPHA = {"fls", "n1", "val", "cond", "condf", "els"}
INVARIANT Emit
CHECK_DEADLOCK FALSE
