SPECIFICATION Spec
CONSTANTS K = 4
 OPS = "reps"
INVARIANT Idempotent
INVARIANT Emit
CHECK_DEADLOCK FALSE
