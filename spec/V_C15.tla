-------------------------------- MODULE V_C15 --------------------------------
(* Mode V for C15: each observation is a history of add / push operations over all tables of a data object, carried out
   on SimpleGarnishData (default settings) and on BasicGarnishData with the growth settings of the case; after EVERY
   operation the harness reads back every address returned so far.  TLC steps the abstract model - independent
   append-only tables (values, instructions, jump table, symbol names) and three stacks (operands, input values,
   frames) - along the operations and compares every read-back with it:
     every value reads back with the type and content it was added with, at the address it was given, after every later
       operation on any table; instructions and jump entries likewise; the stacks hold exactly what was pushed;
     every operation succeeds (a growth policy that can make progress never fails);
     in SimpleGarnishData adding an equal constant again returns the same address. *)
EXTENDS Values, TLC, Json, IOUtils, FiniteSets
Obs == ndJsonDeserialize(IOEnv.OBS)
VARIABLE c
Init == c \in DOMAIN Obs
Next == UNCHANGED c
Spec == Init /\ [][Next]_c
Has(o, f) == f \in DOMAIN o
\* The abstract tables after the first k operations, written without recursion over k (histories are long):
Prefix(ops, k) == SubSeq(ops, 1, k)
IsVal(op) == op.op \in {"val", "symname"}
ValOps(ops, k) == SelectSeq(Prefix(ops, k), IsVal)
RECURSIVE Resolve(_, _)
\* the value an operation describes, with references to earlier values (by value index) replaced by those values;
\* vo = all value-adding operations of the history (a reference always points backwards, the recursion is as deep as the nesting)
Resolve(d, vo) ==
  IF d.t = "ref" THEN (LET op == vo[d.i + 1] IN IF op.op = "symname" THEN [t |-> "sym", n |-> op.n] ELSE Resolve(op.d, vo))
  ELSE IF d.t \in {"pair", "concat", "range", "slice", "partial"} THEN [t |-> d.t, l |-> Resolve(d.l, vo), r |-> Resolve(d.r, vo)]
  ELSE IF d.t = "list" THEN [t |-> "list", v |-> [i \in DOMAIN d.v |-> Resolve(d.v[i], vo)]]
  ELSE d
ValsAt(ops, k) == LET vo == ValOps(ops, k) IN [i \in DOMAIN vo |-> IF vo[i].op = "symname" THEN [t |-> "sym", n |-> vo[i].n] ELSE Resolve(vo[i].d, vo)]
InsAt(ops, k) == LET io == SelectSeq(Prefix(ops, k), LAMBDA op : op.op = "ins") IN [i \in DOMAIN io |-> [i |-> io[i].i, d |-> IF Has(io[i], "d") THEN io[i].d ELSE -1]]
JumpsAt(ops, k) == LET jo == SelectSeq(Prefix(ops, k), LAMBDA op : op.op = "jump") IN [i \in DOMAIN jo |-> jo[i].v]
\* a stack after k operations: the pushes that no later pop has removed (a push at j survives iff from j on there were never more pops than later pushes)
Count(ops, a, b, name) == Cardinality({ m \in a..b : ops[m].op = name })
Alive(ops, j, k, push, pop) == \A m \in (j + 1)..k : Count(ops, j + 1, m, pop) <= Count(ops, j + 1, m, push)
StackAt(ops, k, push, pop) == LET idx == SelectSeq([m \in 1..k |-> m], LAMBDA m : ops[m].op = push /\ Alive(ops, m, k, push, pop)) IN
                              [i \in DOMAIN idx |-> IF push = "frame" THEN ops[idx[i]].v ELSE ops[idx[i]].i]
\* operands and frames are coupled: a frame remembers the depth of the operand stack when it was pushed, popping the frame
\* drops what was pushed above it (both stores do; popping operands below the innermost frame is left to the caller and is
\* not generated).  Only the operand / frame operations take part in this fold, its state is two short sequences.
IsRF(op) == op.op \in {"reg", "popreg", "frame", "popframe"}
RECURSIVE Sim(_, _)
Sim(so, n) ==
  IF n = 0 THEN [regs |-> <<>>, frames |-> <<>>]
  ELSE LET s == Sim(so, n - 1)  op == so[n] IN
       CASE op.op = "reg" -> [s EXCEPT !.regs = Append(@, op.i)]
         [] op.op = "popreg" -> [s EXCEPT !.regs = IF @ = <<>> THEN @ ELSE SubSeq(@, 1, Len(@) - 1)]
         [] op.op = "frame" -> [s EXCEPT !.frames = Append(@, [v |-> op.v, base |-> Len(s.regs)])]
         [] op.op = "popframe" -> IF s.frames = <<>> THEN s
                                  ELSE [regs |-> SubSeq(s.regs, 1, s.frames[Len(s.frames)].base), frames |-> SubSeq(s.frames, 1, Len(s.frames) - 1)]
RF(ops, k) == LET so == SelectSeq(Prefix(ops, k), IsRF) IN Sim(so, Len(so))
After(ops, k) == LET rf == RF(ops, k) IN
                 [vals |-> ValsAt(ops, k), ins |-> InsAt(ops, k), jumps |-> JumpsAt(ops, k), regs |-> rf.regs,
                  stack |-> StackAt(ops, k, "pushval", "popval"), frames |-> [i \in DOMAIN rf.frames |-> rf.frames[i].v]]
Leaf(v) == v.t \in {"int", "sym", "char", "byte", "type", "ext", "expr", "str", "bytes"}
Check(o, r, k) ==
  LET ev == r.events[k]  T == After(o.ops, k)  before == After(o.ops, k - 1) IN
  IF ev.status # "ok" THEN <<"an operation failed (" \o ev.op \o ": " \o ev.status \o " " \o ev.msgk \o ")">>
  ELSE LET rb == ev.rb
           A(i) == rb.addrs[i + 1] IN
       (IF Len(rb.vals) = Len(T.vals) /\ \A i \in DOMAIN T.vals : Ident(T.vals[i], rb.vals[i]) THEN <<>> ELSE <<"a value does not read back with the type and content it was added with">>)
       \o (IF Len(rb.ins) = Len(T.ins) /\ rb.ilen = Len(T.ins) /\ \A i \in DOMAIN T.ins : rb.ins[i].i = T.ins[i].i /\ rb.ins[i].d = T.ins[i].d THEN <<>> ELSE <<"an instruction does not read back as pushed">>)
       \o (IF rb.jumps = T.jumps /\ rb.jlen = Len(T.jumps) THEN <<>> ELSE <<"a jump-table entry does not read back as pushed">>)
       \o (IF rb.regs = [i \in DOMAIN T.regs |-> A(T.regs[i])] THEN <<>> ELSE <<"the operand stack does not hold what was pushed">>)
       \o (IF rb.stack = [i \in DOMAIN T.stack |-> A(T.stack[i])] THEN <<>> ELSE <<"the input-value stack does not hold what was pushed">>)
       \o (IF rb.frames = T.frames THEN <<>> ELSE <<"the frame chain does not hold what was pushed">>)
       \o (IF \A i \in DOMAIN rb.names : rb.names[i] = "same" THEN <<>> ELSE <<"a symbol name is lost or changed">>)
       \o (IF ev.op = "popreg" /\ before.regs # <<>> /\ ev.ret # A(before.regs[Len(before.regs)]) THEN <<"pop_register returns another address than was pushed">> ELSE <<>>)
       \o (IF ev.op = "popframe" /\ before.frames # <<>> /\ ev.ret # before.frames[Len(before.frames)] THEN <<"pop_frame returns another return address than was pushed">> ELSE <<>>)
       \o (IF r.store = "simple" /\ \E i, j \in DOMAIN T.vals : i < j /\ Leaf(T.vals[i]) /\ Leaf(T.vals[j]) /\ Ident(T.vals[i], T.vals[j]) /\ rb.addrs[i] # rb.addrs[j]
           THEN <<"an equal constant added again gets another address">> ELSE <<>>)
RECURSIVE Cat(_, _)
Cat(f, k) == IF k = 0 THEN <<>> ELSE Cat(f, k - 1) \o f[k]
RunFails(o, r) ==
  IF Has(r, "status") THEN <<[store |-> r.store, why |-> "the data object could not be created or panicked (" \o r.status \o " " \o r.msgk \o ")"]>>
  ELSE LET ws == Cat([k \in DOMAIN r.events |-> Check(o, r, k)], Len(r.events)) IN [i \in DOMAIN ws |-> [store |-> r.store, why |-> ws[i]]]
Fails(o) == IF Has(o, "outcome") THEN <<[store |-> "both", why |-> "the worker did not return: " \o o.outcome]>>
            ELSE Cat([k \in DOMAIN o.runs |-> RunFails(o, o.runs[k])], Len(o.runs))
Report == Fails(Obs[c]) = <<>> \/ PrintT(<<"FAIL", ToJson([c |-> c, fails |-> Fails(Obs[c])])>>)
==============================================================================
