-------------------------------- MODULE V_C12 --------------------------------
(* Mode V for C12: blocks of rows of the result matrices of LessThan, LessThanOrEqual, GreaterThan, GreaterThanOrEqual
   (and Equal) over the operand universe, on both stores.
     pointwise  : each of the four results equals CmpV (Values.tla): the natural order on two numbers (mixed int/float),
                  two characters, two bytes, two char lists, two byte lists (lexicographic, shorter prefix first);
                  false on every other combination; unit when a float operand is NaN;
     relational : on the OBSERVED results of ordered kinds - exactly one of a<b, a==b, a>b; a<=b is the negation of a>b;
                  a>=b the negation of a<b; (a<b in the row of a) iff (b>a in the row of b, when both rows are in the block);
     nothing fails: no Err / panic / leftover operand in any cell. *)
EXTENDS Values, Json, IOUtils, KnownFindings
Obs == ndJsonDeserialize(IOEnv.OBS)
VARIABLE c
Init == c \in DOMAIN Obs
Next == UNCHANGED c
Spec == Init /\ [][Next]_c
Code(v) == CASE v.t = "true" -> "T" [] v.t = "false" -> "F" [] v.t = "unit" -> "U" [] OTHER -> "?"
Ops == <<"LessThan", "LessThanOrEqual", "GreaterThan", "GreaterThanOrEqual">>
StoreFails(o, name, m) ==
  IF m.status # "ok" THEN <<[store |-> name, why |-> "setup: " \o m.status, kf |-> "NEW"]>>
  ELSE
  LET n == Len(o.vals)
      M(op) == CASE op = "LessThan" -> m.LessThan [] op = "LessThanOrEqual" -> m.LessThanOrEqual [] op = "GreaterThan" -> m.GreaterThan
                 [] op = "GreaterThanOrEqual" -> m.GreaterThanOrEqual [] OTHER -> m.Equal
      Cell(op, r, j) == M(op).ab[r][j]
      Point == { t \in (1..4) \X (DOMAIN o.rows) \X (1..n) :
                   LET e == CmpV(Ops[t[1]], o.vals[o.rows[t[2]] + 1], o.vals[t[3]]) IN
                   ~IsSkip(e) /\ ~(Cell(Ops[t[1]], t[2], t[3]) = Code(e) /\ M(Ops[t[1]]).aa[t[2]][t[3]] = Code(e)) }
      Rel == { p \in (DOMAIN o.rows) \X (1..n) :
                 LET l == o.vals[o.rows[p[1]] + 1]  r == o.vals[p[2]]
                     lt == Cell("LessThan", p[1], p[2])  le == Cell("LessThanOrEqual", p[1], p[2])
                     gt == Cell("GreaterThan", p[1], p[2])  ge == Cell("GreaterThanOrEqual", p[1], p[2])  eq == Cell("Equal", p[1], p[2]) IN
                 Ordered(l, r) /\ lt \in {"T", "F"} /\
                 ~( Cardinality({x \in {<<1, lt>>, <<2, eq>>, <<3, gt>>} : x[2] = "T"}) = 1
                    /\ (le = "T") = (gt = "F") /\ (ge = "T") = (lt = "F") /\ le \in {"T", "F"} /\ ge \in {"T", "F"} /\ gt \in {"T", "F"} ) }
      PF == IF Point = {} THEN <<>> ELSE LET t == CHOOSE t \in Point : TRUE IN
            <<[store |-> name, why |-> Ops[t[1]] \o " differs from the natural order", n |-> Cardinality(Point), l |-> o.vals[o.rows[t[2]] + 1], r |-> o.vals[t[3]],
               got |-> Cell(Ops[t[1]], t[2], t[3]), expected |-> Code(CmpV(Ops[t[1]], o.vals[o.rows[t[2]] + 1], o.vals[t[3]])), kf |-> "NEW"]>>
      RF == IF Rel = {} THEN <<>> ELSE LET p == CHOOSE p \in Rel : TRUE IN
            <<[store |-> name, why |-> "observed <, <=, >, >=, == are not consistent with one total order", n |-> Cardinality(Rel), l |-> o.vals[o.rows[p[1]] + 1], r |-> o.vals[p[2]],
               got |-> <<Cell("LessThan", p[1], p[2]), Cell("LessThanOrEqual", p[1], p[2]), Cell("GreaterThan", p[1], p[2]), Cell("GreaterThanOrEqual", p[1], p[2]), Cell("Equal", p[1], p[2])>>,
               expected |-> "", kf |-> "NEW"]>>
      DF == IF m.depth_bad = <<>> THEN <<>> ELSE <<[store |-> name, why |-> "operands left behind on the operand stack", n |-> Len(m.depth_bad), l |-> U, r |-> U, got |-> "", expected |-> "", kf |-> "NEW"]>>
  IN PF \o RF \o DF
Fails(o) == StoreFails(o, "simple", o.simple) \o StoreFails(o, "basic", o.basic)
Report == Fails(Obs[c]) = <<>> \/ PrintT(<<"FAIL", ToJson([c |-> c, fails |-> Fails(Obs[c])])>>)
==============================================================================
