SPECIFICATION Spec
INVARIANT TruthIsUniform
INVARIANT Emit
CHECK_DEADLOCK FALSE
