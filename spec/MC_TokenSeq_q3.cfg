SPECIFICATION Spec
CONSTANTS L = 3
 CLASSES = {"val", "id", "pre", "suf", "bin", "pair", "comma", "cond", "else", "open", "close", "nopen", "nclose", "sopen", "sclose", "sep", "blankline", "term"}
 SEPS = {"blank", "none", "annot"}
 BALANCED = FALSE
INVARIANT Emit
CHECK_DEADLOCK FALSE
