SPECIFICATION Spec
CONSTANTS L = 4
 CLASSES = {"val", "pre", "suf", "bin", "comma", "cond", "else", "open", "close", "nopen", "nclose", "sopen", "sclose", "sep", "term"}
 SEPS = {"blank"}
 BALANCED = FALSE
INVARIANT Emit
CHECK_DEADLOCK FALSE
