SPECIFICATION Spec
INVARIANT Report
INVARIANT Drift
CHECK_DEADLOCK FALSE
