SPECIFICATION Spec
CONSTANTS N = 5
  ALPHA = {"n0", "n1", "n2", "n5", "syma", "val", "lst", "pair", "cat", "rng", "rngs", "rnge", "rngx", "acc", "leni", "lefti", "righti", "app", "tyof", "tyeq"}
INVARIANT Emit
CHECK_DEADLOCK FALSE
