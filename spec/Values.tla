------------------------------- MODULE Values -------------------------------
(* The abstract value domain of the garnish core language, in the wire vocabulary of harness/src/val.rs, and the
   value-level meaning of the language's operations (what `+`, `==`, `<`, `.`, truthiness ... MEAN), independent of
   registers, jumps and addresses.  Used by the reference evaluator (Eval.tla), by the instruction-level machine
   (VM.tla) and by the call-level validators.

     [t |-> "unit"|"true"|"false"]   [t |-> "int", v]   [t |-> "float", (s), (k), (m, e)]   [t |-> "char", v]
     [t |-> "byte", v]   [t |-> "sym", n]   [t |-> "symlist", v]   [t |-> "str", v]   [t |-> "bytes", v]
     [t |-> "pair", l, r]   [t |-> "list", v]   [t |-> "concat", l, r]   [t |-> "range", l, r]   [t |-> "slice", l, r]
     [t |-> "partial", l, r]   [t |-> "expr", j]   [t |-> "ext", v]   [t |-> "type", v]

   SKIP is the model's "not specified here": an operator returns it where the listed properties pin nothing (binary64
   rounding, casts, renderings); comparisons with observations treat it as a wildcard.  This is the deliberate, named
   looseness of DESIGN.md 4.4. *)
EXTENDS Integers, Sequences, TLC, FiniteSets
NP == INSTANCE NumberProps
None == <<>>
Some(x) == <<x>>

U == [t |-> "unit"]
TT == [t |-> "true"]
FF == [t |-> "false"]
SKIP == [t |-> "SKIP"]
B(x) == IF x THEN TT ELSE FF
MkInt(n) == [t |-> "int", v |-> n]
MkSym(n) == [t |-> "sym", n |-> n]
MkDy(m, e) == IF m = 0 THEN [t |-> "float", k |-> "zero", sg |-> 0, m |-> 0, e |-> 0]
              ELSE [t |-> "float", k |-> "fin", sg |-> (IF m < 0 THEN -1 ELSE 1), m |-> m, e |-> e, x |-> e + NP!Log2(NP!Abs(m))]
IsNum(v) == v.t \in {"int", "float"}
IsSkip(v) == v.t = "SKIP"

(* ---------------------------------------------------------------- sequences of items *)
RECURSIVE Flat(_)
\* the flat item sequence of a list or a concatenation (C11: "lists and concatenations as the flat sequences of their items")
Flat(v) == IF v.t = "list" THEN v.v
           ELSE IF v.t = "concat" THEN Flat(v.l) \o Flat(v.r)
           ELSE <<v>>            \* (a slice inside a concatenation counts as one item for length and indexing)
IsSeqLike(v) == v.t \in {"list", "concat"}

(* ---------------------------------------------------------------- truth (C10): exactly unit and false are false *)
Truthy(v) == v.t \notin {"unit", "false"}

(* ---------------------------------------------------------------- numbers *)
\* result of an arithmetic / bitwise instruction on two NUMBERS, as a value (SKIP where only the class is specified)
OfExpect(x) == CASE x.k = "unit" -> U [] x.k = "int" -> MkInt(x.v) [] x.k = "dy" -> MkDy(x.m, x.e) [] OTHER -> SKIP
NumOp(op, l, r) == OfExpect(NP!Expect(op, l, r))
NumOp1(op, a) == OfExpect(NP!Expect(op, a, a))
\* numeric equality and order of two number descriptors: <<"lt"|"eq"|"gt">>, <<"unordered">> (NaN), or <<>> = not decidable here
HasDy(d) == NP!HasDy(d)
NumCmp(a, b) ==
  IF a.t = "int" /\ b.t = "int" THEN Some(IF a.v < b.v THEN "lt" ELSE IF a.v = b.v THEN "eq" ELSE "gt")
  ELSE IF (a.t = "float" /\ a.k = "nan") \/ (b.t = "float" /\ b.k = "nan") THEN Some("unordered")
  ELSE LET sa == IF a.t = "int" THEN (IF a.v < 0 THEN -1 ELSE IF a.v = 0 THEN 0 ELSE 1) ELSE a.sg
           sb == IF b.t = "int" THEN (IF b.v < 0 THEN -1 ELSE IF b.v = 0 THEN 0 ELSE 1) ELSE b.sg
           inf(d) == d.t = "float" /\ d.k \in {"inf", "ninf"}
       IN IF sa # sb THEN Some(IF sa < sb THEN "lt" ELSE "gt")
          ELSE IF sa = 0 THEN Some("eq")
          ELSE IF inf(a) \/ inf(b) THEN (IF inf(a) /\ inf(b) THEN Some("eq") ELSE IF inf(a) THEN Some(IF sa > 0 THEN "gt" ELSE "lt") ELSE Some(IF sa > 0 THEN "lt" ELSE "gt"))
          ELSE \* same non-zero sign, both finite: compare magnitudes by binary exponent, then exactly if both are small dyadics
               LET xa == NP!Xof(a)  xb == NP!Xof(b)
                   mag == IF xa # xb THEN Some(IF xa < xb THEN "lt" ELSE "gt")
                          ELSE IF HasDy(a) /\ HasDy(b) THEN
                               LET p == NP!Dy(a)  q == NP!Dy(b)  e0 == NP!Min(p[2], q[2])
                                   s1 == p[2] - e0  s2 == q[2] - e0 IN
                               \* equal binary exponent: |m| * 2^s stays below 2^31 after alignment only when shifts are small
                               IF s1 <= 30 - NP!Log2(NP!Abs(p[1])) /\ s2 <= 30 - NP!Log2(NP!Abs(q[1]))
                               THEN LET A == NP!Abs(p[1]) * NP!N32!Pow2(s1)  Bq == NP!Abs(q[1]) * NP!N32!Pow2(s2)
                                    IN Some(IF A < Bq THEN "lt" ELSE IF A = Bq THEN "eq" ELSE "gt")
                               ELSE None
                          ELSE None
               IN IF mag = None THEN None
                  ELSE IF sa > 0 THEN mag ELSE Some(CASE mag[1] = "lt" -> "gt" [] mag[1] = "gt" -> "lt" [] OTHER -> "eq")
NumEq(a, b) == LET c == NumCmp(a, b) IN IF c = None THEN None ELSE Some(c[1] = "eq")

SliceInside(v) == v.r.t = "range" /\ v.r.l.t = "int" /\ v.r.r.t = "int" /\ v.r.l.v >= 0 /\ v.r.r.v >= v.r.l.v - 1 /\ v.r.r.v < Len(v.l.v)
(* ---------------------------------------------------------------- structural equality (C11) *)
RECURSIVE StructEq(_, _), AllEq(_, _, _)
\* TRUE / FALSE, or SKIP-like <<>> when a float comparison is not decidable in the model
AllEq(xs, ys, i) == IF i > Len(xs) THEN Some(TRUE)
                    ELSE LET h == StructEq(xs[i], ys[i]) IN
                         IF h = None THEN None ELSE IF ~h[1] THEN Some(FALSE) ELSE AllEq(xs, ys, i + 1)
StructEq(a, b) ==
  IF IsNum(a) /\ IsNum(b) THEN NumEq(a, b)
  ELSE IF a.t = "char" /\ b.t = "str" THEN Some(b.v = <<a.v>>)
  ELSE IF a.t = "str" /\ b.t = "char" THEN Some(a.v = <<b.v>>)
  ELSE IF a.t = "byte" /\ b.t = "bytes" THEN Some(b.v = <<a.v>>)
  ELSE IF a.t = "bytes" /\ b.t = "byte" THEN Some(a.v = <<b.v>>)
  ELSE IF IsSeqLike(a) /\ IsSeqLike(b) THEN
       LET xs == Flat(a)  ys == Flat(b) IN IF Len(xs) # Len(ys) THEN Some(FALSE) ELSE AllEq(xs, ys, 1)
  ELSE IF a.t # b.t THEN Some(FALSE)
  ELSE CASE a.t \in {"unit", "true", "false"} -> Some(TRUE)
         [] a.t \in {"char", "byte", "str", "bytes", "ext", "type"} -> Some(a.v = b.v)
         [] a.t = "sym" -> Some(a.n = b.n)
         [] a.t = "expr" -> Some(a.j = b.j)
         [] a.t = "symlist" -> IF Len(a.v) # Len(b.v) THEN Some(FALSE) ELSE AllEq(a.v, b.v, 1)
         [] a.t \in {"pair", "range"} -> LET h == StructEq(a.l, b.l) IN
                                        IF h = None THEN None ELSE IF ~h[1] THEN Some(FALSE) ELSE StructEq(a.r, b.r)
         \* two slices are equal when they cover equal items (slices of lists) / equal characters or bytes (slices of text / bytes);
         \* only slices that lie inside what they slice are specified
         [] a.t = "slice" -> (IF a.l.t # b.l.t \/ a.l.t \notin {"list", "str", "bytes"} \/ ~SliceInside(a) \/ ~SliceInside(b) THEN None
                              ELSE LET xs == SubSeq(a.l.v, a.r.l.v + 1, a.r.r.v + 1)  ys == SubSeq(b.l.v, b.r.l.v + 1, b.r.r.v + 1) IN
                                   IF Len(xs) # Len(ys) THEN Some(FALSE) ELSE IF a.l.t = "list" THEN AllEq(xs, ys, 1) ELSE Some(xs = ys))
         [] OTHER -> None

(* ---------------------------------------------------------------- model value vs observed value *)
RECURSIVE HasSkip(_)
\* does a model value contain an unspecified part?
HasSkip(m) == CASE m.t = "SKIP" -> TRUE
                [] m.t \in {"list", "symlist"} -> \E i \in DOMAIN m.v : HasSkip(m.v[i])
                [] m.t \in {"pair", "concat", "range", "slice", "partial"} -> HasSkip(m.l) \/ HasSkip(m.r)
                [] OTHER -> FALSE
RECURSIVE SameVal(_, _)
\* m: value computed by the model (may contain SKIP), o: value read back from the real store
SameVal(m, o) ==
  IF m.t = "SKIP" THEN TRUE
  ELSE IF m.t # o.t THEN FALSE
  ELSE CASE m.t \in {"unit", "true", "false"} -> TRUE
         [] m.t = "int" -> m.v = o.v
         [] m.t = "float" -> IF "m" \in DOMAIN m
                             THEN (IF m.m = 0 THEN o.k \in {"zero", "nzero"} ELSE o.k = "fin" /\ "m" \in DOMAIN o /\ o.m = m.m /\ o.e = m.e)
                             ELSE ("s" \in DOMAIN m => m.s = o.s)
         [] m.t \in {"char", "byte", "str", "bytes", "ext", "type"} -> m.v = o.v
         [] m.t = "sym" -> m.n = o.n
         [] m.t = "expr" -> TRUE          \* expression values are compared by kind: table indexes depend on what else was built
         [] m.t \in {"list", "symlist"} -> Len(m.v) = Len(o.v) /\ \A i \in DOMAIN m.v : SameVal(m.v[i], o.v[i])
         [] m.t \in {"pair", "concat", "range", "slice", "partial"} -> SameVal(m.l, o.l) /\ SameVal(m.r, o.r)
         [] OTHER -> FALSE

(* ---------------------------------------------------------------- the scripted host *)
\* H = [resolve |-> sequence of [key |-> name, value], apply |-> sequence of [key |-> external number, value]];
\* a key that is not listed is declined.  <<value>> or <<>>.
RECURSIVE FindIn(_, _, _)
FindIn(tab, key, i) == IF i > Len(tab) THEN None ELSE IF tab[i].key = key THEN Some(tab[i].value) ELSE FindIn(tab, key, i + 1)
HostResolve(H, name) == FindIn(H.resolve, name, 1)
HostApply(H, n) == FindIn(H.apply, n, 1)
NoHost == [resolve |-> <<>>, apply |-> <<>>]

(* ---------------------------------------------------------------- association lookup and access *)
RECURSIVE LookupIn(_, _, _)
LookupIn(items, sym, i) == IF i > Len(items) THEN None
                           ELSE IF items[i].t = "pair" /\ items[i].l.t = "sym" /\ items[i].l.n = sym.n THEN Some(items[i].r)
                           ELSE LookupIn(items, sym, i + 1)
KeysOf(items) == { items[i].l.n : i \in { j \in DOMAIN items : items[j].t = "pair" /\ items[j].l.t = "sym" } }
NKeyed(items) == Len(SelectSeq(items, LAMBDA x : x.t = "pair" /\ x.l.t = "sym"))
\* the statement of C16 speaks about DISTINCT symbols; lookups in lists with a repeated key are not specified
DistinctKeys(items) == NKeyed(items) = Cardinality(KeysOf(items))
Lookup(v, sym) ==    \* <<value>>, <<>> = absent ; caller checks DistinctKeys
  IF v.t = "pair" THEN (IF v.l.t = "sym" /\ v.l.n = sym.n THEN Some(v.r) ELSE None)
  ELSE IF v.t = "list" THEN LookupIn(v.v, sym, 1)
  ELSE IF v.t = "concat" THEN LookupIn(Flat(v), sym, 1)       \* C16: "the same holds for concatenations of such lists"
  ELSE None
HasKeys(v) == v.t \in {"pair", "list", "concat"}
KeysDistinct(v) == CASE v.t = "list" -> DistinctKeys(v.v) [] v.t = "concat" -> DistinctKeys(Flat(v)) [] OTHER -> TRUE
\* ranges hold both ends: start .. end means start, start+1, ..., end (the exclusive forms move an end inwards by one)
IntRange(v) == v.t = "range" /\ v.l.t = "int" /\ v.r.t = "int" /\ v.r.v >= v.l.v - 1 /\ v.r.v < 2147483000 /\ v.l.v > -2147483000
RangeLen(v) == v.r.v - v.l.v + 1
TypeName(v) == CASE v.t = "unit" -> "Unit" [] v.t = "true" -> "True" [] v.t = "false" -> "False" [] v.t \in {"int", "float"} -> "Number" [] v.t = "char" -> "Char"
                 [] v.t = "byte" -> "Byte" [] v.t = "sym" -> "Symbol" [] v.t = "symlist" -> "SymbolList" [] v.t = "str" -> "CharList" [] v.t = "bytes" -> "ByteList"
                 [] v.t = "pair" -> "Pair" [] v.t = "list" -> "List" [] v.t = "concat" -> "Concatenation" [] v.t = "range" -> "Range" [] v.t = "slice" -> "Slice"
                 [] v.t = "partial" -> "Partial" [] v.t = "expr" -> "Expression" [] v.t = "ext" -> "External" [] v.t = "type" -> "Type" [] OTHER -> "Invalid"
\* x ~# y : x converted to the type of y (or to the type y names).  Specified here: the identity, the conversions into a list
\* (a range counts its numbers, text its characters, bytes its bytes, a concatenation its items, a slice of a list the items
\* it covers, a symbol list its parts), between characters, bytes and numbers, and text to number / character.  The
\* renderings into text differ between the two stores and are pinned by no property: SKIP.
RECURSIVE CountUp(_, _)
CountUp(a, b) == IF a > b THEN <<>> ELSE <<MkInt(a)>> \o CountUp(a + 1, b)
Digits(cs) == cs # <<>> /\ \A i \in DOMAIN cs : cs[i] >= 48 /\ cs[i] <= 57
RECURSIVE DecVal(_, _)
DecVal(cs, i) == IF i = 0 THEN 0 ELSE DecVal(cs, i - 1) * 10 + (cs[i] - 48)
CastV(x, y) ==
  LET T == IF y.t = "type" THEN y.v ELSE TypeName(y) IN
  IF TypeName(x) = T THEN x
  ELSE IF T = "List" THEN
     CASE x.t = "range" -> (IF IntRange(x) /\ RangeLen(x) <= 40 THEN [t |-> "list", v |-> CountUp(x.l.v, x.r.v)] ELSE SKIP)
       [] x.t = "str" -> [t |-> "list", v |-> [i \in DOMAIN x.v |-> [t |-> "char", v |-> x.v[i]]]]
       [] x.t = "bytes" -> [t |-> "list", v |-> [i \in DOMAIN x.v |-> [t |-> "byte", v |-> x.v[i]]]]
       [] x.t = "concat" -> [t |-> "list", v |-> Flat(x)]
       [] x.t = "symlist" -> [t |-> "list", v |-> x.v]
       [] x.t = "slice" -> (LET base == IF x.l.t = "concat" THEN Flat(x.l) ELSE IF x.l.t \in {"list", "str", "bytes"} THEN x.l.v ELSE <<>> IN
                            IF x.l.t \in {"list", "str", "bytes", "concat"} /\ IntRange(x.r) /\ x.r.l.v >= 0 /\ x.r.r.v < Len(base)
                            THEN (LET part == SubSeq(base, x.r.l.v + 1, x.r.r.v + 1) IN
                                  [t |-> "list", v |-> IF x.l.t \in {"list", "concat"} THEN part ELSE [i \in DOMAIN part |-> [t |-> IF x.l.t = "str" THEN "char" ELSE "byte", v |-> part[i]]]])
                            ELSE SKIP)
       [] x.t = "unit" -> U
       [] OTHER -> SKIP
  ELSE IF T = "Number" THEN
     CASE x.t = "char" -> MkInt(x.v) [] x.t = "byte" -> MkInt(x.v)
       [] x.t = "str" -> (IF Digits(x.v) /\ Len(x.v) <= 9 THEN MkInt(DecVal(x.v, Len(x.v))) ELSE IF \A i \in DOMAIN x.v : x.v[i] \notin 43..57 THEN U ELSE SKIP)
       [] x.t = "unit" -> U
       [] OTHER -> SKIP
  ELSE IF T = "Char" THEN
     CASE x.t = "str" -> (IF Len(x.v) = 1 THEN [t |-> "char", v |-> x.v[1]] ELSE U)
       [] x.t = "byte" -> [t |-> "char", v |-> x.v]
       [] x.t = "int" -> (IF x.v >= 0 /\ x.v < 55296 THEN [t |-> "char", v |-> x.v] ELSE SKIP)
       [] x.t = "unit" -> U
       [] OTHER -> SKIP
  ELSE IF T = "Byte" THEN
     CASE x.t = "int" -> (IF x.v >= 0 /\ x.v <= 255 THEN [t |-> "byte", v |-> x.v] ELSE SKIP)
       [] x.t = "char" -> (IF x.v <= 255 THEN [t |-> "byte", v |-> x.v] ELSE SKIP)
       [] x.t = "unit" -> U
       [] OTHER -> SKIP
  ELSE IF T = "ByteList" THEN
     \* the byte encodings of numbers, text and symbols are a data-implementation matter (SimpleGarnishData offers none): SKIP;
     \* a cast of unit is the empty byte list on both
     CASE x.t = "unit" -> [t |-> "bytes", v |-> <<>>]
       [] OTHER -> SKIP
  ELSE SKIP
\* value of  l . r  /  apply of a list or pair to r  (SKIP = not specified by the listed properties)
AccessV(l, r) ==
  IF r.t = "int" THEN
     CASE l.t = "list" -> IF r.v >= 0 /\ r.v < Len(l.v) THEN l.v[r.v + 1] ELSE U
       [] l.t = "pair" -> IF r.v = 0 /\ l.l.t = "sym" THEN l ELSE U
       [] l.t = "str" -> IF r.v >= 0 /\ r.v < Len(l.v) THEN [t |-> "char", v |-> l.v[r.v + 1]] ELSE U
       [] l.t = "bytes" -> IF r.v >= 0 /\ r.v < Len(l.v) THEN [t |-> "byte", v |-> l.v[r.v + 1]] ELSE U
       [] l.t = "sym" -> [t |-> "symlist", v |-> <<l, r>>]           \* symbols and integers chain into symbol lists
       [] l.t = "symlist" -> [t |-> "symlist", v |-> Append(l.v, r)]
       [] l.t = "concat" -> (LET f == Flat(l) IN IF r.v >= 0 /\ r.v < Len(f) THEN f[r.v + 1] ELSE U)     \* a concatenation is the sequence of the items of both sides
       [] l.t = "range" -> (IF ~IntRange(l) THEN SKIP ELSE IF r.v >= 0 /\ r.v < RangeLen(l) THEN MkInt(l.l.v + r.v) ELSE U)
       [] l.t = "slice" -> (IF ~(l.l.t \in {"list", "str", "bytes", "concat"} /\ IntRange(l.r) /\ l.r.l.v >= 0) THEN SKIP
                            ELSE LET base == IF l.l.t = "concat" THEN Flat(l.l) ELSE l.l.v IN
                                 IF r.v >= 0 /\ r.v < RangeLen(l.r) /\ l.r.l.v + r.v < Len(base)
                                 THEN (LET it == base[l.r.l.v + r.v + 1] IN IF l.l.t \in {"list", "concat"} THEN it ELSE [t |-> IF l.l.t = "str" THEN "char" ELSE "byte", v |-> it])
                                 ELSE U)
       [] OTHER -> U
  ELSE IF r.t = "sym" THEN
     CASE l.t = "pair" -> (LET x == Lookup(l, r) IN IF x = None THEN U ELSE x[1])
       [] l.t = "list" -> IF ~DistinctKeys(l.v) THEN SKIP ELSE (LET x == Lookup(l, r) IN IF x = None THEN U ELSE x[1])
       [] l.t \in {"sym", "int"} -> [t |-> "symlist", v |-> <<l, r>>]
       [] l.t = "symlist" -> [t |-> "symlist", v |-> Append(l.v, r)]
       [] l.t = "concat" -> (LET f == Flat(l) IN IF ~DistinctKeys(f) THEN SKIP ELSE LET x == LookupIn(f, r, 1) IN IF x = None THEN U ELSE x[1])
       \* a symbol looked up in a slice of a list or of a concatenation: among the items the slice covers
       [] l.t = "slice" -> (IF ~(l.l.t \in {"list", "concat"} /\ IntRange(l.r) /\ l.r.l.v >= 0) THEN SKIP
                            ELSE LET base == IF l.l.t = "concat" THEN Flat(l.l) ELSE l.l.v
                                     hi == IF l.r.r.v + 1 > Len(base) THEN Len(base) ELSE l.r.r.v + 1
                                     part == SubSeq(base, l.r.l.v + 1, hi) IN
                                 IF ~DistinctKeys(part) THEN SKIP ELSE LET x == LookupIn(part, r, 1) IN IF x = None THEN U ELSE x[1])
       [] l.t \in {"float", "range", "str", "bytes"} -> SKIP
       [] OTHER -> U
  ELSE IF r.t = "float" THEN SKIP
  ELSE IF r.t = "symlist" THEN
     CASE l.t \in {"sym", "int"} -> [t |-> "symlist", v |-> <<l>> \o r.v]
       [] l.t = "symlist" -> [t |-> "symlist", v |-> l.v \o r.v]
       [] l.t = "float" -> SKIP
       [] OTHER -> U
  ELSE U

(* ---------------------------------------------------------------- identity of two read-backs *)
\* two values read back through the same getters are compared exactly, but kind by kind: TLC cannot compare records whose
\* fields hold values of different kinds (an integer with a sequence)
RECURSIVE Ident(_, _)
Ident(a, b) ==
  IF a.t # b.t THEN FALSE
  ELSE CASE a.t \in {"unit", "true", "false", "none", "deep"} -> TRUE
         [] a.t \in {"int", "char", "byte", "ext"} -> a.v = b.v
         [] a.t = "float" -> a.s = b.s
         [] a.t = "sym" -> a.n = b.n
         [] a.t = "type" -> a.v = b.v
         [] a.t = "expr" -> a.j = b.j
         [] a.t \in {"str", "bytes"} -> a.v = b.v
         [] a.t \in {"list", "symlist"} -> Len(a.v) = Len(b.v) /\ \A i \in DOMAIN a.v : Ident(a.v[i], b.v[i])
         [] a.t \in {"pair", "concat", "range", "slice", "partial"} -> Ident(a.l, b.l) /\ Ident(a.r, b.r)
         [] a.t = "bad" -> FALSE          \* a value that cannot be read back is never "the same"
         [] OTHER -> a = b

(* ---------------------------------------------------------------- ordering (C12), on what the statement orders *)
RECURSIVE LexCmp(_, _, _)
LexCmp(xs, ys, i) == IF i > Len(xs) \/ i > Len(ys) THEN (IF Len(xs) < Len(ys) THEN "lt" ELSE IF Len(xs) = Len(ys) THEN "eq" ELSE "gt")
                     ELSE IF xs[i] < ys[i] THEN "lt" ELSE IF xs[i] > ys[i] THEN "gt" ELSE LexCmp(xs, ys, i + 1)
Ordered(l, r) == (IsNum(l) /\ IsNum(r)) \/ (l.t = r.t /\ l.t \in {"char", "byte", "str", "bytes"})
\* <<"lt"|"eq"|"gt"|"unordered">> for ordered operand kinds, <<>> if not decidable here
NatOrder(l, r) ==
  IF IsNum(l) THEN NumCmp(l, r)
  ELSE IF l.t \in {"char", "byte"} THEN Some(IF l.v < r.v THEN "lt" ELSE IF l.v = r.v THEN "eq" ELSE "gt")
  ELSE Some(LexCmp(l.v, r.v, 1))
\* the value of  l OP r  for OP in < <= > >=
CmpV(op, l, r) ==
  IF ~Ordered(l, r) THEN FF
  ELSE LET c == NatOrder(l, r) IN
       IF c = None THEN SKIP
       ELSE IF c[1] = "unordered" THEN U
       ELSE B(CASE op = "LessThan" -> c[1] = "lt" [] op = "LessThanOrEqual" -> c[1] \in {"lt", "eq"}
                [] op = "GreaterThan" -> c[1] = "gt" [] OTHER -> c[1] \in {"gt", "eq"})
EqV(op, l, r) == LET h == StructEq(l, r) IN IF h = None THEN SKIP ELSE B(h[1] = (op = "Equal"))
=============================================================================
