------------------------------ MODULE MultiBuild ------------------------------
(* The shared data object as far as C20 talks about it: three append-only tables (instructions, jump table, data)
   and, for every program built so far, the segment of the instruction table and of the jump table it owns.
     Build(p)  appends p's segment to each table (how long it is is the builder's business);
     Exec(p)   runs a built program from its reported entry: it may append data (residue of the execution), never
               instructions or jump entries.
   The same step functions drive the schedule generator (MC_MultiBuild, mode G) and the validation of event
   sequences observed from the real build()/runtime (V_C20, mode V). *)
EXTENDS Integers, Sequences, FiniteSets
Empty == [ilen |-> 0, jlen |-> 0, dlen |-> 0, segs |-> <<>>]
Seg(p, s, isz, jsz, dsz) == [p |-> p, ibase |-> s.ilen, iend |-> s.ilen + isz, jbase |-> s.jlen, jend |-> s.jlen + jsz,
                            dbase |-> s.dlen, dend |-> s.dlen + dsz]
BuildStep(s, p, isz, jsz, dsz) == [ilen |-> s.ilen + isz, jlen |-> s.jlen + jsz, dlen |-> s.dlen + dsz, segs |-> Append(s.segs, Seg(p, s, isz, jsz, dsz))]
ExecStep(s, p, residue) == [s EXCEPT !.dlen = @ + residue]
ResidueStep(s, i, j, d) == [s EXCEPT !.ilen = @ + i, !.jlen = @ + j, !.dlen = @ + d]      \* earlier content that belongs to no program
Built(s) == { s.segs[k].p : k \in DOMAIN s.segs }
SegOf(s, p) == s.segs[CHOOSE k \in DOMAIN s.segs : s.segs[k].p = p]
Disjoint(a, b) == (a.iend <= b.ibase \/ b.iend <= a.ibase) /\ (a.jend <= b.jbase \/ b.jend <= a.jbase)
SegsOK(s) == /\ \A k \in DOMAIN s.segs : LET g == s.segs[k] IN g.ibase < g.iend /\ g.iend <= s.ilen /\ g.jbase < g.jend /\ g.jend <= s.jlen /\ g.dend <= s.dlen
             /\ \A k, m \in DOMAIN s.segs : k # m => Disjoint(s.segs[k], s.segs[m])
\* what a later step may do to what earlier steps established: tables only grow, segments never move
Extends(s, t) == /\ s.ilen <= t.ilen /\ s.jlen <= t.jlen /\ s.dlen <= t.dlen
                 /\ Len(s.segs) <= Len(t.segs) /\ \A k \in DOMAIN s.segs : t.segs[k] = s.segs[k]
==============================================================================
