SPECIFICATION Spec
CONSTANT SIZE = "small"
INVARIANT Decided
INVARIANT Trichotomy
INVARIANT Converse
INVARIANT TransitiveOrder
INVARIANT Emit
CHECK_DEADLOCK FALSE
