----------------------------- MODULE MC_Boundary -----------------------------
(* Mode G for C07: programs seeded with boundary literals.  The value of these programs is mostly not pinned by any
   listed property (casts, slices, ranges, concatenations); what IS pinned is that stepping them never panics.  The
   model therefore only chooses WHAT to run: operator templates x a boundary literal set (i32 limits, large and tiny
   floats, empty and multi-byte text, shift counts around 32, negative and fractional indexes, empty / reversed /
   negative ranges, nested sequence constructions).  One state per program; the token sequence is printed for replay. *)
EXTENDS Integers, Sequences, TLC, Json
CONSTANT FULL      \* TRUE: the whole literal set; FALSE: a sample (quick tier)
Ints == IF FULL THEN {<<"0">>, <<"1">>, <<"2">>, <<"31">>, <<"32">>, <<"33">>, <<"64">>, <<"2147483647">>, <<"2147483646">>,
                      <<"--", "1">>, <<"--", "2">>, <<"--", "32">>, <<"--", "2147483647">>, <<"(", "--", "2147483647", "-", "1", ")">>}
        ELSE {<<"0">>, <<"1">>, <<"32">>, <<"2147483647">>, <<"--", "1">>, <<"--", "2147483647">>, <<"(", "--", "2147483647", "-", "1", ")">>}
Floats == IF FULL THEN {<<"0.5">>, <<"0.0">>, <<"--", "0.5">>, <<"2147483648.0">>, <<"99999999999999999999999999999999999999.0">>, <<"0.00000000000000000000000000000000000001">>, <<"1.5">>}
          ELSE {<<"0.5">>, <<"--", "0.5">>, <<"99999999999999999999999999999999999999.0">>}
Texts == IF FULL THEN {<<"\"\"">>, <<"\"a\"">>, <<"\"abc\"">>, <<"\"\\u{e9}\"">>, <<"\"a\\u{1F600}b\"">>, <<"'a'">>, <<"'abc'">>}
         ELSE {<<"\"\"">>, <<"\"abc\"">>, <<"\"a\\u{1F600}b\"">>, <<"'abc'">>}
Others == IF FULL THEN {<<"()">>, <<"$?">>, <<"$!">>, <<":a">>, <<"$">>, <<"{", "$", "}">>, <<"(", ":a", "=", "1", ")">>}
          ELSE {<<"()">>, <<":a">>, <<"{", "$", "}">>, <<"(", ":a", "=", "1", ")">>}
Seqs == IF FULL THEN {<<"(", ",", ")">>, <<"(", "1", "2", "3", ")">>, <<"(", "1", ",", ")">>, <<"(", "(", "1", "2", ")", "<>", "(", "3", "4", ")", ")">>, <<"(", "1", "<>", "2", ")">>,
                      <<"(", ":a", ".", ":b", ")">>, <<"(", ":a", "=", "1", ":b", "=", "2", ")">>, <<"(", "1", "..", "3", ")">>, <<"(", "3", "..", "1", ")">>,
                      <<"(", "--", "1", "..", "0", ")">>, <<"(", "\"abc\"", "<~", "(", "1", "..", "2", ")", ")">>, <<"(", "(", "1", "2", "3", ")", "<~", "(", "0", "..", "1", ")", ")">>}
        ELSE {<<"(", ",", ")">>, <<"(", "1", "2", "3", ")">>, <<"(", "(", "1", "2", ")", "<>", "(", "3", "4", ")", ")">>, <<"(", ":a", ".", ":b", ")">>, <<"(", "1", "..", "3", ")">>,
              <<"(", "3", "..", "1", ")">>, <<"(", "(", "1", "2", "3", ")", "<~", "(", "0", "..", "1", ")", ")">>}
Types == {<<"(", "#", "1", ")">>, <<"(", "#", "\"a\"", ")">>, <<"(", "#", "'a'", ")">>, <<"(", "#", "(", "1", "2", ")", ")">>, <<"(", "#", ":a", ")">>, <<"(", "#", "(", "1", "..", "2", ")", ")">>}
Lits == Ints \cup Floats \cup Texts \cup Others \cup Seqs
BinOps == {"+", "-", "*", "/", "//", "%", "**", "&", "|", "^", "<<", ">>", "&&", "||", "^^", "==", "!=", "<", "<=", ">", ">=", "=", ".",
           "<>", "..", ">..", "..<", ">..<", "<~", "~>", "~", "#=", "?>", "!>", ","}
PreOps == {"--", "++", "!", "!!", "??", "#", "_."}
SufOps == {"~~", "._", ".|"}
RangeEnds == {<<"0">>, <<"1">>, <<"2">>, <<"5">>, <<"--", "1">>, <<"--", "2147483647">>, <<"2147483647">>}
AfterSlice == {<<".|">>, <<".", "0">>, <<".", "1">>, <<"~#", "(", "#", "(", "1", "2", ")", ")">>, <<"~#", "(", "#", "\"a\"", ")">>, <<"==", "(", "1", "2", "3", ")">>,
               <<"<", "\"b\"">>, <<"<>", "(", "7", "8", ")">>, <<"._">>, <<"_.">>, <<"<~", "(", "0", "..", "1", ")">>, <<".", ":a">>}
VARIABLES toks, tag
NoTag == [k |-> "other", lo |-> <<>>, hi |-> <<>>, f |-> <<>>]
Init == \/ \E a \in Lits, b \in Lits, op \in BinOps : toks = a \o <<op>> \o b /\ tag = NoTag
        \/ \E a \in Lits, op \in PreOps : toks = <<op>> \o a /\ tag = NoTag
        \/ \E a \in Lits, op \in SufOps : toks = a \o <<op>> /\ tag = NoTag
        \/ \E a \in Lits, ty \in Types : toks = a \o <<"~#">> \o ty /\ tag = NoTag
        \/ \E sq \in Seqs \cup Texts, lo \in RangeEnds, hi \in RangeEnds, f \in AfterSlice :
              /\ toks = IF f[1] = "_." THEN <<"_.", "(">> \o sq \o <<"<~", "(">> \o lo \o <<"..">> \o hi \o <<")", ")">>
                        ELSE <<"(">> \o sq \o <<"<~", "(">> \o lo \o <<"..">> \o hi \o <<")", ")">> \o f
              /\ tag = [k |-> "slice", lo |-> lo, hi |-> hi, f |-> f]
Next == UNCHANGED <<toks, tag>>
Spec == Init /\ [][Next]_<<toks, tag>>
Emit == PrintT(<<"REPLAY", ToJson([toks |-> toks, tag |-> tag])>>)
==============================================================================
