SPECIFICATION Spec
CONSTANTS MAXN = 3
  MODE = "model"
INVARIANT SimpleFinds
INVARIANT BasicFinds
CHECK_DEADLOCK FALSE
