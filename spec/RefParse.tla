------------------------------- MODULE RefParse -------------------------------
(* Property layer of C02: the tree the operator table DICTATES for a token sequence - the textbook operator-precedence
   parse, written as a recursive operator over the tokens and nothing else (no adjacency bookkeeping, no node reuse):
     1. an implicit List operator is inserted between an operand end (value, closing bracket, suffix operator) and an
        operand start (value, opening bracket, prefix operator);
     2. values and prefix operators attach as the right child of the previous node;
     3. a binary or suffix operator of priority p climbs the right spine past every node that binds tighter than p
        (or equally tight, unless the incoming operator groups right-to-left) - and past every completed suffix
        expression - and adopts the subtree it stopped above as its left operand;
     4. groups are parsed recursively and are opaque to the outside.
   Tokens: [k |-> "v" | "op" | "open" | "close", d, fix, p, r2l, txt].   Trees: <<>> or <<[d, l, r]>>. *)
EXTENDS OperatorTable, TLC
NONE == 0
V(txt) == [k |-> "v", d |-> "Number", fix |-> "v", p |-> ValuePriority, r2l |-> FALSE, txt |-> txt]
T(o) == [k |-> "op", d |-> o.d, fix |-> o.fix, p |-> o.p, r2l |-> o.r2l, txt |-> o.txt]
OPEN == [k |-> "open", d |-> "Group", fix |-> "open", p |-> GroupPriority, r2l |-> FALSE, txt |-> "("]
CLOSE == [k |-> "close", d |-> "", fix |-> "close", p |-> 0, r2l |-> FALSE, txt |-> ")"]
IsPre(t) == t.k = "op" /\ t.fix = "pre"
IsSuf(t) == t.k = "op" /\ t.fix = "suf"
Starts(t) == t.k \in {"v", "open"} \/ IsPre(t)
Ends(t) == t.k \in {"v", "close"} \/ IsSuf(t)
RECURSIVE WithLists(_, _)
WithLists(ts, i) == IF i > Len(ts) THEN <<>>
                    ELSE (IF i > 1 /\ Ends(ts[i - 1]) /\ Starts(ts[i]) THEN <<T(ListOp)>> ELSE <<>>) \o <<ts[i]>> \o WithLists(ts, i + 1)
RECURSIVE Climb(_, _, _, _, _)
Climb(nodes, child, parent, p, r2l) ==
  IF parent = NONE THEN <<child, NONE>>
  ELSE LET pp == nodes[parent].p IN
       IF nodes[parent].fix # "suf" /\ (p < pp \/ (p = pp /\ r2l)) THEN <<child, parent>>
       ELSE Climb(nodes, parent, nodes[parent].parent, p, r2l)
Node(d, p, fix, sub) == [d |-> d, p |-> p, fix |-> fix, l |-> NONE, r |-> NONE, parent |-> NONE, sub |-> sub]
RECURSIVE RTree(_, _)
RTree(nodes, i) == IF i = NONE THEN <<>>
                   ELSE IF nodes[i].fix = "open" THEN nodes[i].sub            \* a group contributes its content
                   ELSE << [d |-> nodes[i].d, l |-> RTree(nodes, nodes[i].l), r |-> RTree(nodes, nodes[i].r)] >>
RECURSIVE Root(_, _)
Root(nodes, i) == IF nodes[i].parent = NONE THEN i ELSE Root(nodes, nodes[i].parent)
RECURSIVE ParseFrom(_, _, _, _)
ParseFrom(ts, i, nodes, last) ==
  IF i > Len(ts) \/ ts[i].k = "close" THEN [tree |-> IF nodes = <<>> THEN <<>> ELSE RTree(nodes, Root(nodes, 1)), next |-> i + 1]
  ELSE LET t == ts[i]  n == Len(nodes) + 1 IN
    IF t.k = "open" THEN
       LET g == ParseFrom(ts, i + 1, <<>>, NONE)
           nn == [Node("Group", GroupPriority, "open", g.tree) EXCEPT !.parent = last]
           ns == IF last = NONE THEN Append(nodes, nn) ELSE Append([nodes EXCEPT ![last].r = n], nn)
       IN ParseFrom(ts, g.next, ns, n)
    ELSE IF t.k = "v" \/ IsPre(t) THEN
       LET nn == [Node(t.d, t.p, t.fix, <<>>) EXCEPT !.parent = last]
           ns == IF last = NONE THEN Append(nodes, nn) ELSE Append([nodes EXCEPT ![last].r = n], nn)
       IN ParseFrom(ts, i + 1, ns, n)
    ELSE
       LET c == Climb(nodes, last, nodes[last].parent, t.p, t.r2l)
           nn == [Node(t.d, t.p, t.fix, <<>>) EXCEPT !.l = c[1], !.parent = c[2]]
           n1 == [nodes EXCEPT ![c[1]].parent = n]
           n2 == IF c[2] = NONE THEN n1 ELSE [n1 EXCEPT ![c[2]].r = n]
       IN ParseFrom(ts, i + 1, Append(n2, nn), n)
RefTree(ts) == ParseFrom(WithLists(ts, 1), 1, <<>>, NONE).tree

\* ---- "writing out the parentheses the table implies changes nothing but the added group nodes"
RECURSIVE FullParen(_, _)
\* the token sequence of tree t with EVERY operator application parenthesised; leaf texts are taken from `leaves`
TokOf(d) == IF d = "Number" THEN V("5") ELSE T(CHOOSE o \in Operators : o.d = d)
FullParen(t, top) ==
  IF t = <<>> THEN <<>>
  ELSE LET n == t[1]  inner == FullParen(n.l, FALSE) \o (IF n.d = "List" THEN <<>> ELSE <<TokOf(n.d)>>) \o FullParen(n.r, FALSE) IN
       IF n.d = "Number" \/ top THEN inner ELSE <<OPEN>> \o inner \o <<CLOSE>>
==============================================================================
