SPECIFICATION Spec
CONSTANTS N = 7
  ALPHA = {"val", "n0", "n1", "n2", "rng", "app", "acc"}
INVARIANT Emit
CHECK_DEADLOCK FALSE
