SPECIFICATION Spec
CONSTANTS N = 3
  ALPHABET = {"a", "1", "_", ":", ".", "-", "<", ">", "~", "=", "?", "$", "(", ")", "DQ", "SQ", "@", "BT", "SP", "TAB", "NL", "CR", "BS", "E2", "EMOJI", ";", "|"}
INVARIANT Emit
CHECK_DEADLOCK FALSE
