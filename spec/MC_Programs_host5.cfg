SPECIFICATION Spec
CONSTANTS N = 5
  ALPHA = {"ida", "idb", "idc", "n1", "val", "app", "appto", "emp", "add", "and", "cond", "els", "nest", "seq", "lst", "pair", "acc"}
INVARIANT Emit
CHECK_DEADLOCK FALSE
