SPECIFICATION Spec
CONSTANTS N = 4
  ALPHA = {"n0", "n1", "n5", "unit", "fls", "syma", "strs", "val", "ida", "idb", "acc", "mul", "idiv", "add", "sub", "band", "shl", "pair", "lst", "lt", "ge", "eq", "ne", "and", "xor", "or", "app", "appto", "cond", "condf", "els", "com", "seq", "lefti", "neg", "bnot", "not", "tis", "reap", "emp", "righti", "leni", "nest", "se"}
INVARIANT Emit
CHECK_DEADLOCK FALSE
