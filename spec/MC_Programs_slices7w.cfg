SPECIFICATION Spec
CONSTANTS N = 7
  ALPHA = {"val", "n0", "n1", "n2", "n5", "rng", "rnge", "app", "acc", "leni"}
INVARIANT Emit
CHECK_DEADLOCK FALSE
