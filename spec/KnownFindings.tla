---------------------------- MODULE KnownFindings ----------------------------
(* Signatures of the genuine defects of garnish-core that are recorded (known_findings.json) rather than
   repaired.  Each matcher is a predicate over ONE failing observation's own fields and returns the id of
   the finding it matches, or "NEW".  Matchers are deliberately narrow (call site + structural condition),
   so that a different violation of the same property is still reported.  bin/check only suppresses ids
   that known_findings.json lists as open. *)
EXTENDS Integers, Sequences
(* C09-float-intdiv-saturates: integer division with a float operand whose quotient lies outside i32 returns the
   saturated cast (i32::MAX / i32::MIN) instead of unit; pinned by the repository test
   data::number::tests::integer_division_overflow, so it cannot be repaired without editing the suite. *)
KF_C09(o, site, exp) ==
  LET r == CASE site = "method" -> o.method [] site = "simple" -> o.simple [] OTHER -> o.basic IN
  IF o.op = "IntegerDivide" /\ "float" \in {o.an.t, o.bn.t} /\ exp.k = "unit" /\ r.k = "val" /\ r.v.t = "int"
     /\ r.v.v \in {2147483647, -2147483647 - 1}
  THEN "C09-float-intdiv-saturates" ELSE "NEW"
(* C01-simple-symlist-with-number: SimpleGarnishData stores a symbol list as a vector of symbols only, so chaining a
   symbol with a number (`:a . 0`, `5 . :a`), which the runtime defines as a symbol list and BasicGarnishData
   implements, fails with "Cannot create symbol list from types" (data/src/runtime.rs merge_to_symbol_list). *)
KF_Run(prop, why, o, r) ==
  IF prop = "C01" /\ r.store = "simple" /\ r.status = "err" /\ "msgk" \in DOMAIN r /\ r.msgk = "Cannot create symbol list from types"
  THEN "C01-simple-symlist-with-number" ELSE "NEW"
==============================================================================
