---------------------------- MODULE KnownFindings ----------------------------
(* Signatures of the genuine defects of garnish-core that are recorded (known_findings.json) rather than
   repaired.  Each matcher is a predicate over ONE failing observation's own fields and returns the id of
   the finding it matches, or "NEW".  Matchers are deliberately narrow (call site + structural condition),
   so that a different violation of the same property is still reported.  bin/check only suppresses ids
   that known_findings.json lists as open. *)
EXTENDS Integers, Sequences, Lang
(* C09-float-intdiv-saturates: integer division with a float operand whose quotient lies outside i32 returns the
   saturated cast (i32::MAX / i32::MIN) instead of unit; pinned by the repository test
   data::number::tests::integer_division_overflow, so it cannot be repaired without editing the suite. *)
KF_C09(o, site, exp) ==
  LET r == CASE site = "method" -> o.method [] site = "simple" -> o.simple [] OTHER -> o.basic IN
  IF o.op = "IntegerDivide" /\ "float" \in {o.an.t, o.bn.t} /\ exp.k = "unit" /\ r.k = "val" /\ r.v.t = "int"
     /\ r.v.v \in {2147483647, -2147483647 - 1}
  THEN "C09-float-intdiv-saturates" ELSE "NEW"
(* C01-simple-symlist-with-number: SimpleGarnishData stores a symbol list as a vector of symbols only, so chaining a
   symbol with a number (`:a . 0`, `5 . :a`), which the runtime defines as a symbol list and BasicGarnishData
   implements, fails with "Cannot create symbol list from types" (data/src/runtime.rs merge_to_symbol_list). *)
(* C06-else-chain-without-default: an else-chain whose last element is a conditional arm (`c1 ?> a |> c2 ?> b`) emits no
   fall-through value: when no arm matches, the join point is reached with nothing pending (EndExpression / the next
   operator underflows, "No references in register").  A lone conditional does emit the input value there.  The exact
   instruction vectors of such chains are pinned by the repository tests build::jumps::triple_jump_if_*_with_else, so
   the builder cannot be repaired without editing the suite.
   Signatures: on the AST, an `els` node whose right child is a conditional; on an instruction stream, a conditional
   jump whose fall-through successor is the join point that a JumpTo of the same program targets. *)
RECURSIVE AstNoDefaultChain(_)
AstNoDefaultChain(t) == (t.l = "els" /\ t.b[1].l \in {"cond", "condf"})
                        \/ (t.a # <<>> /\ AstNoDefaultChain(t.a[1])) \/ (t.b # <<>> /\ AstNoDefaultChain(t.b[1]))
InsNoDefaultChain(r) ==
  \E i \in DOMAIN r.ins : /\ r.ins[i].op \in {"JumpIfTrue", "JumpIfFalse"}
                           /\ \E k \in DOMAIN r.ins : r.ins[k].op = "JumpTo" /\ r.ins[k].d >= 0 /\ r.ins[k].d < Len(r.jumps) /\ r.jumps[r.ins[k].d + 1] = i
NoDefaultChain(o, r) == IF "ast" \in DOMAIN o THEN AstNoDefaultChain(TreeOf(o.ast)) ELSE ("ins" \in DOMAIN r /\ InsNoDefaultChain(r))

KF_Run(prop, why, o, r) ==
  IF prop \in {"C01", "C06"} /\ r.status = "err" /\ "msgk" \in DOMAIN r /\ r.msgk = "No references in register" /\ NoDefaultChain(o, r)
  THEN "C06-else-chain-without-default"
  ELSE IF prop = "C01" /\ r.store = "simple" /\ r.status = "err" /\ "msgk" \in DOMAIN r /\ r.msgk = "Cannot create symbol list from types"
  THEN "C01-simple-symlist-with-number" ELSE "NEW"
KF_Trace(prop, o, r, k) == IF prop = "C06" /\ NoDefaultChain(o, r) THEN "C06-else-chain-without-default" ELSE "NEW"
KF_Balance(st, o, r, pc) == IF st \in {"badend", "underflow"} /\ NoDefaultChain(o, r) THEN "C06-else-chain-without-default" ELSE "NEW"
(* C07-huge-span-materialised: casting a slice whose range starts at -2147483647 to a char list iterates
   the whole numeric range item by item (data/src/simple.rs add_to_current_char_list `for i in start..=end`, and the
   corresponding BasicGarnishData conversion): one instruction runs for ~2^31 iterations; the worker's 25 s watchdog
   reports it as a hang.  Not a panic, but the step does not return in useful time. *)
\* C07-huge-span-materialised: a cast (~#) of a slice whose range starts at -2147483647 or ends at 2147483647 does not return
HugeSpan(t) == t.k = "slice" /\ (t.lo = <<"--", "2147483647">> \/ t.hi = <<"2147483647">>) /\ t.f[1] = "~#"
\* the same finding in the generated program corpus (prefix-notation ASTs): a cast of a range that ends at 2147483647
HugeSpanAst(a) == \E i, j, k \in DOMAIN a : a[i] = "cast" /\ a[j] \in {"rng", "rngs", "rnge", "rngx"} /\ a[k] = "nmax"
KF_C07(o, r) ==
  IF "outcome" \in DOMAIN o /\ o.outcome = "hang" /\ "input_case" \in DOMAIN o
     /\ \/ ("tag" \in DOMAIN o.input_case /\ HugeSpan(o.input_case.tag))
        \/ ("ast" \in DOMAIN o.input_case /\ HugeSpanAst(o.input_case.ast))
  THEN "C07-huge-span-materialised" ELSE "NEW"
KF_C08(o, run, why) == "NEW"
==============================================================================
