SPECIFICATION Spec
CONSTANTS L = 6
 CLASSES = {"val", "pre", "suf", "bin", "comma", "open", "close", "nopen", "nclose", "sopen", "sclose", "blankline"}
 SEPS = {"blank"}
 BALANCED = TRUE
INVARIANT Emit
CHECK_DEADLOCK FALSE
