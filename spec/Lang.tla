-------------------------------- MODULE Lang --------------------------------
(* The core language of garnish as a grammar of AST productions (property layer of C01/C02/C10/C17/C18):
     - the production table: arity, kind, precedence number, associativity, the parser Definition it must map to,
       and its spelling.  The precedence numbers are a FROZEN transcription of the language's operator table
       (compiler/src/parse/parser.rs make_priority_map at the pinned commit); they are data of the specification and
       are not read from the code at check time, so a changed number in the code shows up as a disagreement.
     - generation of every AST up to a size bound by growth in prefix notation (Grow),
     - WellFormed: the context conditions of the core grammar (where `;`, `|>`, `^~`, `[ ]` may occur),
     - Print: the token text with MINIMAL parentheses decided from the table alone, so that generated programs
       exercise precedence and associativity of the real parser as well.
   Trees are records [l |-> production label, a |-> <<>> or <<left/only child>>, b |-> <<>> or <<right child>>]. *)
EXTENDS Integers, Sequences, TLC

Atom(d, txt) == [ar |-> 0, kind |-> "atom", p |-> 10, r2l |-> FALSE, d |-> d, txt |-> txt]
Bin(p, d, txt) == [ar |-> 2, kind |-> "bin", p |-> p, r2l |-> FALSE, d |-> d, txt |-> txt]
Pre(p, d, txt) == [ar |-> 1, kind |-> "pre", p |-> p, r2l |-> FALSE, d |-> d, txt |-> txt]
Suf(p, d, txt) == [ar |-> 1, kind |-> "suf", p |-> p, r2l |-> FALSE, d |-> d, txt |-> txt]

Prod == [
  \* ---- atoms
  n0    |-> Atom("Number", "0"),       n1   |-> Atom("Number", "1"),        n2   |-> Atom("Number", "2"),
  n5    |-> Atom("Number", "5"),       nmax |-> Atom("Number", "2147483647"),
  f05   |-> Atom("Number", "0.5"),     f2   |-> Atom("Number", "2.0"),      f15  |-> Atom("Number", "1.5"),
  f0    |-> Atom("Number", "0.0"),     f1   |-> Atom("Number", "1.0"),      f5   |-> Atom("Number", "5.0"),
  unit  |-> Atom("Unit", "()"),        tru  |-> Atom("True", "$?"),         fls  |-> Atom("False", "$!"),
  syma  |-> Atom("Symbol", ":a"),      symb |-> Atom("Symbol", ":b"),      symc |-> Atom("Symbol", ":c"),
  strs  |-> Atom("CharList", "\"s\""), stre |-> Atom("CharList", "\"\""),   strab |-> Atom("CharList", "\"ab\""),
  byab  |-> Atom("ByteList", "'ab'"),   bys  |-> Atom("ByteList", "'s'"),
  val   |-> Atom("Value", "$"),        ida  |-> Atom("Identifier", "a"),    idb  |-> Atom("Identifier", "b"),  idc |-> Atom("Identifier", "c"),
  \* ---- binary operators (priority, parser definition, spelling)
  acc   |-> Bin(30, "Access", "."),
  cast  |-> Bin(70, "TypeCast", "~#"),
  pow   |-> Bin(80, "ExponentialSign", "**"),
  mul   |-> Bin(90, "MultiplicationSign", "*"),  div |-> Bin(90, "Division", "/"),  idiv |-> Bin(90, "IntegerDivision", "//"),
  rem   |-> Bin(90, "Remainder", "%"),
  add   |-> Bin(100, "Addition", "+"),           sub |-> Bin(100, "Subtraction", "-"),
  shl   |-> Bin(110, "BitwiseLeftShift", "<<"),  shr |-> Bin(110, "BitwiseRightShift", ">>"),
  band  |-> Bin(111, "BitwiseAnd", "&"),         bxor |-> Bin(112, "BitwiseXor", "^"),  bor |-> Bin(113, "BitwiseOr", "|"),
  rng   |-> Bin(200, "Range", ".."),             rngs |-> Bin(200, "StartExclusiveRange", ">.."),
  rnge  |-> Bin(200, "EndExclusiveRange", "..<"), rngx |-> Bin(200, "ExclusiveRange", ">..<"),
  pair  |-> [ar |-> 2, kind |-> "bin", p |-> 210, r2l |-> TRUE, d |-> "Pair", txt |-> "="],
  lst   |-> [ar |-> 2, kind |-> "list", p |-> 220, r2l |-> FALSE, d |-> "List", txt |-> ""],
  part  |-> Bin(230, "PartialApply", "~"),       cat  |-> Bin(240, "Concatenation", "<>"),
  lt    |-> Bin(300, "LessThan", "<"),           le  |-> Bin(300, "LessThanOrEqual", "<="),
  gt    |-> Bin(300, "GreaterThan", ">"),        ge  |-> Bin(300, "GreaterThanOrEqual", ">="),
  eq    |-> Bin(400, "Equality", "=="),          ne  |-> Bin(400, "Inequality", "!="),       tyeq |-> Bin(400, "TypeEqual", "#="),
  and   |-> Bin(410, "And", "&&"),               xor |-> Bin(420, "Xor", "^^"),         or  |-> Bin(430, "Or", "||"),
  app   |-> Bin(550, "Apply", "<~"),             appto |-> Bin(550, "ApplyTo", "~>"),
  cond  |-> Bin(700, "JumpIfTrue", "?>"),        condf |-> Bin(700, "JumpIfFalse", "!>"),
  els   |-> Bin(800, "ElseJump", "|>"),
  com   |-> Bin(900, "CommaList", ","),
  seq   |-> [ar |-> 2, kind |-> "seq", p |-> 990, r2l |-> FALSE, d |-> "ExpressionSeparator", txt |-> ";"],
  \* ---- prefix operators
  lefti |-> Pre(50, "AccessLeftInternal", "_."),  tyof |-> Pre(69, "TypeOf", "#"),
  neg   |-> Pre(75, "Opposite", "--"),           abs |-> Pre(75, "AbsoluteValue", "++"),   bnot |-> Pre(75, "BitwiseNot", "!"),
  not   |-> Pre(400, "Not", "!!"),               tis |-> Pre(400, "Tis", "??"),
  reap  |-> Pre(600, "Reapply", "^~"),
  \* ---- application of a resolved name: prefix  a` x , suffix  x `a , infix  x `a` y   (the name is resolved first)
  pfa   |-> Pre(150, "PrefixApply", "a`"),       pfb |-> Pre(150, "PrefixApply", "b`"),
  sfa   |-> Suf(151, "SuffixApply", "`a"),       ifa |-> Bin(152, "InfixApply", "`a`"),
  \* ---- suffix operators
  emp   |-> Suf(40, "EmptyApply", "~~"),
  righti |-> Suf(60, "AccessRightInternal", "._"), leni |-> Suf(60, "AccessLengthInternal", ".|"),
  \* ---- bracketed constructs
  nest  |-> [ar |-> 1, kind |-> "nest", p |-> 20, r2l |-> FALSE, d |-> "NestedExpression", txt |-> "{"],
  se    |-> [ar |-> 2, kind |-> "se", p |-> 5, r2l |-> FALSE, d |-> "SideEffect", txt |-> "["] ]
Labels == DOMAIN Prod
P(t) == Prod[t.l]
Kind(t) == P(t).kind
Mk0(l) == [l |-> l, a |-> <<>>, b |-> <<>>]
Mk1(l, x) == [l |-> l, a |-> <<x>>, b |-> <<>>]
Mk2(l, x, y) == [l |-> l, a |-> <<x>>, b |-> <<y>>]

(* ---------------------------------------------------------------- prefix sequence -> tree *)
RECURSIVE TreeAt(_, _)
TreeAt(s, i) ==
  LET l == s[i]  ar == Prod[l].ar IN
  IF ar = 0 THEN [t |-> Mk0(l), n |-> i + 1]
  ELSE IF ar = 1 THEN LET x == TreeAt(s, i + 1) IN [t |-> Mk1(l, x.t), n |-> x.n]
  ELSE LET x == TreeAt(s, i + 1)  y == TreeAt(s, x.n) IN [t |-> Mk2(l, x.t, y.t), n |-> y.n]
TreeOf(s) == TreeAt(s, 1).t
RECURSIVE Size(_)
Size(t) == 1 + (IF t.a = <<>> THEN 0 ELSE Size(t.a[1])) + (IF t.b = <<>> THEN 0 ELSE Size(t.b[1]))

(* ---------------------------------------------------------------- context conditions of the core grammar *)
IsCondLike(t) == t.l \in {"cond", "condf"}
RECURSIVE ChainOk(_)
\* an else-chain: every left operand of `|>` is a conditional or a shorter chain
\* and only the LAST element of a chain may be a default (a `|>` after a default could never be reached)
ChainOk(t) == IF t.l = "els" THEN (IsCondLike(t.a[1]) \/ (t.a[1].l = "els" /\ IsCondLike(t.a[1].b[1]) /\ ChainOk(t.a[1]))) ELSE TRUE
RECURSIVE WF(_, _, _)
\* body: this node is in "body position" (root, { } body, [ ] body, or under a `;` in such a position);
\* tail: this node is in tail position of a conditional arm of an expression body - the program itself or a { } body
\*       (where ^~ is meaningful: it starts that expression again with a new input value)
WF(t, body, tail) ==
  LET k == Kind(t) IN
  CASE k = "atom" -> TRUE
    [] k = "seq" -> body /\ Kind(t.b[1]) # "seq"      \* `a ; b ; c` groups to the left; parentheses would turn `;` into a blank
                    /\ WF(t.a[1], TRUE, FALSE) /\ WF(t.b[1], TRUE, tail)
    [] k = "nest" -> WF(t.a[1], TRUE, TRUE)
    [] k = "se" -> Kind(t.a[1]) = "atom" /\ WF(t.b[1], TRUE, FALSE)
    [] t.l = "reap" -> tail /\ WF(t.a[1], FALSE, FALSE)
    [] t.l \in {"cond", "condf"} -> WF(t.a[1], FALSE, FALSE) /\ WF(t.b[1], FALSE, tail)
    [] t.l = "els" -> ChainOk(t) /\ WF(t.a[1], FALSE, tail) /\ WF(t.b[1], FALSE, tail)
    [] k \in {"pre", "suf"} -> WF(t.a[1], FALSE, FALSE)
    \* the right operand of && / || is evaluated only if the left one does not decide: like a conditional arm it may end in ^~
    [] t.l \in {"and", "or"} -> WF(t.a[1], FALSE, FALSE) /\ WF(t.b[1], FALSE, tail)
    [] OTHER -> WF(t.a[1], FALSE, FALSE) /\ WF(t.b[1], FALSE, FALSE)
\* a reapply is only reachable through a conditional arm (an unconditional ^~ never terminates)
RECURSIVE ReapGuarded(_, _)
ReapGuarded(t, guarded) ==
  IF t.l = "reap" THEN guarded
  ELSE IF t.l \in {"cond", "condf", "and", "or"} THEN ReapGuarded(t.a[1], guarded) /\ ReapGuarded(t.b[1], TRUE)
  ELSE IF t.l = "nest" THEN ReapGuarded(t.a[1], FALSE)
  ELSE (t.a = <<>> \/ ReapGuarded(t.a[1], guarded)) /\ (t.b = <<>> \/ ReapGuarded(t.b[1], guarded))
WellFormed(t) == WF(t, TRUE, TRUE) /\ ReapGuarded(t, FALSE)

(* ---------------------------------------------------------------- printing with minimal parentheses *)
\* Which operators are "open" on the right / left edge of the printed form of t decides whether a neighbour
\* operator would capture part of it; everything is computed from the priorities alone.
RECURSIVE RightOpen(_), LeftOps(_), Paren(_, _, _, _), RightOpenChild(_, _, _), LeftOpsChild(_, _, _, _)
OpLike(k) == k \in {"bin", "list", "seq"}
RightOpen(t) ==
  LET k == Kind(t) IN
  CASE k \in {"atom", "suf", "nest", "se"} -> {}
    [] k = "pre" -> {P(t).p} \cup RightOpenChild(t.a[1], P(t).p, "preArg")
    [] OTHER -> {P(t).p} \cup RightOpenChild(t.b[1], P(t).p, "right")
LeftOps(t) ==
  LET k == Kind(t) IN
  CASE k \in {"atom", "pre", "nest"} -> {}
    [] k = "suf" -> {[p |-> P(t).p, r2l |-> FALSE]} \cup LeftOpsChild(t.a[1], P(t).p, FALSE, "sufArg")
    [] k = "se" -> {[p |-> 5, r2l |-> FALSE]}
    [] OTHER -> {[p |-> P(t).p, r2l |-> P(t).r2l]} \cup LeftOpsChild(t.a[1], P(t).p, P(t).r2l, "left")
Paren(c, p, r2l, pos) ==
  CASE pos \in {"left", "sufArg"} -> (\E q \in RightOpen(c) : q > p \/ (q = p /\ r2l))
    [] pos \in {"right", "preArg"} -> (\E o \in LeftOps(c) : o.p > p \/ (o.p = p /\ ~o.r2l))
    [] OTHER -> FALSE
RightOpenChild(c, p, pos) == IF Paren(c, p, FALSE, pos) THEN {} ELSE RightOpen(c)
LeftOpsChild(c, p, r2l, pos) == IF Paren(c, p, r2l, pos) THEN {} ELSE LeftOps(c)

\* tokens: [k, d, sec, p, txt]   k in v | op | open | close | sep
Tok(t) == [k |-> IF Kind(t) = "atom" THEN "v" ELSE "op", d |-> P(t).d,
           sec |-> CASE Kind(t) = "pre" -> "UnaryPrefix" [] Kind(t) = "suf" -> "UnarySuffix"
                     [] OTHER -> (IF P(t).r2l THEN "BinaryRightToLeft" ELSE "BinaryLeftToRight"),
           p |-> P(t).p, txt |-> P(t).txt]
Br(k, d, txt) == [k |-> k, d |-> d, sec |-> "", p |-> 20, txt |-> txt]
OPEN == Br("open", "Group", "(")        CLOSE == Br("close", "", ")")
NOPEN == Br("open", "NestedExpression", "{")   NCLOSE == Br("close", "", "}")
SOPEN == Br("sopen", "SideEffect", "[")        SCLOSE == Br("close", "", "]")
RECURSIVE Pr(_)
Wrap(c, need) == IF need THEN <<OPEN>> \o Pr(c) \o <<CLOSE>> ELSE Pr(c)
Pr(t) ==
  LET k == Kind(t) IN
  CASE k = "atom" -> <<Tok(t)>>
    [] k = "pre" -> <<Tok(t)>> \o Wrap(t.a[1], Paren(t.a[1], P(t).p, FALSE, "preArg"))
    [] k = "suf" -> Wrap(t.a[1], Paren(t.a[1], P(t).p, FALSE, "sufArg")) \o <<Tok(t)>>
    [] k = "list" -> Wrap(t.a[1], Paren(t.a[1], 220, FALSE, "left")) \o Wrap(t.b[1], Paren(t.b[1], 220, FALSE, "right"))
    [] k = "nest" -> <<NOPEN>> \o Pr(t.a[1]) \o <<NCLOSE>>
    [] k = "se" -> Pr(t.a[1]) \o <<SOPEN>> \o Pr(t.b[1]) \o <<SCLOSE>>
    [] OTHER -> Wrap(t.a[1], Paren(t.a[1], P(t).p, P(t).r2l, "left")) \o <<Tok(t)>> \o Wrap(t.b[1], Paren(t.b[1], P(t).p, P(t).r2l, "right"))
Texts(ts) == [i \in DOMAIN ts |-> ts[i].txt]
=============================================================================
