SPECIFICATION Spec
CONSTANTS N = 5
  ALPHABET = {"a", "1", "_", ":", ".", "+", "<", ">", "~", "!", "$", "(", "DQ", "SQ"}
INVARIANT Emit
CHECK_DEADLOCK FALSE
