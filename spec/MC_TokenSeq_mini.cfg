SPECIFICATION Spec
CONSTANTS L = 3
 CLASSES = {"val","pre","bin","comma","term","sep","suf"}
 SEPS = {"blank","annot"}
INVARIANT Emit
CHECK_DEADLOCK FALSE
