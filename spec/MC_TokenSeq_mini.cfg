SPECIFICATION Spec
CONSTANTS L = 3
 CLASSES = {"val","pre","bin","comma","term","sep","suf"}
 SEPS = {"blank","annot"}
 BALANCED = FALSE
INVARIANT Emit
CHECK_DEADLOCK FALSE
