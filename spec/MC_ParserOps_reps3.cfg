SPECIFICATION Spec
CONSTANTS K = 3
 OPS = "reps"
INVARIANT Idempotent
INVARIANT Emit
CHECK_DEADLOCK FALSE
