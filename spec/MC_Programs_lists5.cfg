SPECIFICATION Spec
CONSTANTS N = 5
  ALPHA = {"n1", "syma", "symb", "val", "pair", "lst", "com", "acc", "leni", "ida", "nest", "se"}
INVARIANT Emit
CHECK_DEADLOCK FALSE
