SPECIFICATION Spec
CONSTANTS L = 6
 CLASSES = {"val", "sep", "blankline", "nopen", "nclose", "sopen", "sclose", "suf"}
 SEPS = {"blank"}
 BALANCED = TRUE
INVARIANT Emit
CHECK_DEADLOCK FALSE
