SPECIFICATION Spec
CONSTANTS K = 3
 OPS = "all"
INVARIANT Idempotent
INVARIANT Emit
CHECK_DEADLOCK FALSE
