SPECIFICATION Spec
CONSTANTS N = 4
  ALPHA = {"byab", "bys", "unit", "strab", "n0", "n1", "acc", "leni", "cat", "eq", "lt", "rng", "app", "tyof", "cast"}
INVARIANT Emit
CHECK_DEADLOCK FALSE
