---------------------------- MODULE MC_Programs ----------------------------
(* Mode G for the program-level properties (C01, C04-C07, C10, C17-C20): enumerate every well-formed AST of the
   core language with at most N nodes over the production alphabet ALPHA, by growth in prefix notation (one
   production per step), and print each with minimal parentheses.  Under -simulate the same Next draws random
   larger ASTs.  The design-level facts checked here: every emitted program is well-formed, and printing is
   defined (total) on every generated tree. *)
EXTENDS Lang, Json
CONSTANTS N, ALPHA
VARIABLES seq, open
vars == <<seq, open>>
Init == seq = <<>> /\ open = 1
Grow == /\ open > 0
        /\ \E l \in ALPHA : /\ Len(seq) + 1 + (open - 1) + Prod[l].ar <= N
                            /\ seq' = Append(seq, l) /\ open' = open - 1 + Prod[l].ar
Next == Grow
Spec == Init /\ [][Next]_vars
Complete == open = 0 /\ seq # <<>>
Emit == (Complete /\ WellFormed(TreeOf(seq))) =>
          PrintT(<<"REPLAY", ToJson([ast |-> seq, toks |-> Texts(Pr(TreeOf(seq)))])>>)
=============================================================================
