SPECIFICATION Spec
CONSTANT SIZE = "large"
INVARIANT Decided
INVARIANT Trichotomy
INVARIANT Converse
INVARIANT TransitiveOrder
INVARIANT Emit
CHECK_DEADLOCK FALSE
