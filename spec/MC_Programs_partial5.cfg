SPECIFICATION Spec
CONSTANTS N = 5
  ALPHA = {"val", "n1", "n5", "syma", "nest", "part", "app", "appto", "emp", "add", "lst", "cat", "leni", "acc"}
INVARIANT Emit
CHECK_DEADLOCK FALSE
