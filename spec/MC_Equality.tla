----------------------------- MODULE MC_Equality -----------------------------
(* Mode G for C11.  (1) The value universe: atoms of every kind the statement lists (units, booleans, integers and
   floats that are numerically equal / different, characters, bytes, symbols, symbol lists, char lists, byte lists -
   including the empty ones and the one-element ones that equal a single character / byte), and composites over a small
   core: pairs, lists of length 0..2, concatenations (of atoms, of lists), nested lists, each with near-miss mutants
   (one item changed, one item more, list vs concatenation of the same items).  Printed once for replay.
   (2) Design-level: the specification's own StructEq is an equivalence relation on that universe (reflexive,
   symmetric, transitive) - one state per triple over the core. *)
EXTENDS Values, Json, SequencesExt
CONSTANT SIZE     \* "small" | "large"
I(n) == MkInt(n)
Ch(c) == [t |-> "char", v |-> c]
By(b) == [t |-> "byte", v |-> b]
Str(s) == [t |-> "str", v |-> s]
Bytes(s) == [t |-> "bytes", v |-> s]
L(s) == [t |-> "list", v |-> s]
Pr(a, b) == [t |-> "pair", l |-> a, r |-> b]
Cat(a, b) == [t |-> "concat", l |-> a, r |-> b]
Atoms == { U, TT, FF, I(0), I(1), I(-1), I(2147483647), MkDy(0, 0), MkDy(1, 0), MkDy(1, -1), MkDy(-1, 0), MkDy(1, 31),
           Ch(97), Ch(98), Ch(233), Str(<<233>>), Str(<<233, 97>>), By(97), By(1), MkSym("a"), MkSym("b"), Str(<<>>), Str(<<97>>), Str(<<97, 98>>), Str(<<98>>),
           Bytes(<<>>), Bytes(<<97>>), Bytes(<<1>>), Bytes(<<1, 2>>), [t |-> "symlist", v |-> <<MkSym("a"), MkSym("b")>>],
           [t |-> "symlist", v |-> <<MkSym("b"), MkSym("a")>>], [t |-> "type", v |-> "Number"], [t |-> "type", v |-> "List"],
           [t |-> "expr", j |-> 0], [t |-> "ext", v |-> 0], [t |-> "ext", v |-> 1], [t |-> "range", l |-> I(0), r |-> I(2)], [t |-> "range", l |-> I(0), r |-> I(3)] }
Core == IF SIZE = "small" THEN { I(1), MkDy(1, 0), U, Ch(97), Str(<<97>>), MkSym("a") }
        ELSE { I(1), I(2), MkDy(1, 0), MkDy(1, -1), U, FF, Ch(97), Str(<<97>>), Str(<<>>), MkSym("a"), By(1) }
Lists1 == { L(<<>>) } \cup { L(<<x>>) : x \in Core } \cup { L(<<x, y>>) : x \in Core, y \in Core }
Pairs1 == { Pr(x, y) : x \in Core, y \in Core }
Cats1 == { Cat(x, y) : x \in {I(1), U, MkSym("a")}, y \in {I(1), MkDy(1, 0), Ch(97)} }
         \cup { Cat(L(<<x>>), L(<<y>>)) : x \in {I(1), U}, y \in {I(1), MkDy(1, 0), Ch(97)} }
         \cup { Cat(L(<<>>), L(<<x, y>>)) : x \in {I(1), U}, y \in {I(1), MkDy(1, 0)} }
         \cup { Cat(Cat(I(1), I(1)), I(1)), Cat(I(1), Cat(I(1), I(1))), Cat(L(<<I(1), I(1)>>), I(1)) }
         \* the same concatenation twice inside one (shared by address in the second address variant), next to its flat spellings
         \cup { Cat(Cat(I(1), I(2)), Cat(I(1), I(2))), Cat(L(<<I(1), I(2)>>), L(<<I(1), I(2)>>)), L(<<I(1), I(2), I(1), I(2)>>), Cat(I(1), I(2)) }
Nested == { L(<<L(<<I(1)>>), Pr(MkSym("a"), L(<<I(1), I(2)>>))>>), L(<<L(<<I(1)>>), Pr(MkSym("a"), L(<<I(1), I(3)>>))>>),
            L(<<L(<<MkDy(1, 0)>>), Pr(MkSym("a"), L(<<I(1), MkDy(1, 1)>>))>>), L(<<L(<<I(1)>>), Pr(MkSym("a"), L(<<I(1), I(2), I(3)>>))>>),
            L(<<I(1), I(1), I(1)>>), L(<<I(1), I(2), I(3)>>), L(<<I(1), I(5), I(3)>>), L(<<I(1), TT, I(3)>>), L(<<I(1), I(2)>>),
            Pr(I(1), Pr(I(2), I(3))), Pr(I(1), Pr(I(2), I(4))), Pr(Pr(I(1), I(2)), I(3)), Pr(I(1), U), Pr(I(1), I(2)),
            L(<<L(<<L(<<>>)>>)>>), L(<<L(<<>>)>>), L(<<Str(<<97, 98>>), Ch(97)>>), L(<<Str(<<97, 98>>), Str(<<97>>)>>) }
Universe == Atoms \cup Lists1 \cup Pairs1 \cup Cats1 \cup Nested
LawCore == Atoms \cup { L(<<>>), L(<<I(1)>>), L(<<MkDy(1, 0)>>), L(<<I(1), I(1)>>), Cat(I(1), I(1)), Cat(L(<<I(1)>>), L(<<I(1)>>)), Pr(I(1), I(1)), Pr(MkDy(1, 0), I(1)) }
VARIABLES a, b, c, phase
vars == <<a, b, c, phase>>
Init == \/ phase = "emit" /\ a = U /\ b = U /\ c = U
        \/ phase = "laws" /\ a \in LawCore /\ b \in LawCore /\ c \in LawCore
Next == UNCHANGED vars
Spec == Init /\ [][Next]_vars
Eq(x, y) == LET h == StructEq(x, y) IN h # None /\ h[1]
Decidable == phase = "laws" => StructEq(a, b) # None
Reflexive == phase = "laws" => Eq(a, a)
Symmetric == phase = "laws" => (Eq(a, b) <=> Eq(b, a))
Transitive == phase = "laws" => ((Eq(a, b) /\ Eq(b, c)) => Eq(a, c))
Emit == phase = "emit" => PrintT(<<"REPLAY", ToJson([vals |-> SetToSeq(Universe), core |-> SetToSeq(LawCore)])>>)
==============================================================================
