SPECIFICATION Spec
CONSTANTS L = 5
 CLASSES = {"val", "sopen", "sclose", "term"}
 SEPS = {"blank", "none"}
INVARIANT Emit
CHECK_DEADLOCK FALSE
