SPECIFICATION Spec
CONSTANTS K = 2
 OPS = "all"
INVARIANT Idempotent
INVARIANT Emit
CHECK_DEADLOCK FALSE
