SPECIFICATION Spec
CONSTANTS MAXS = 2
  MAXG = 3
  COPIES = 8
  RANDOM = TRUE
INVARIANT CanonicalAgrees
INVARIANT Emit
CHECK_DEADLOCK FALSE
