SPECIFICATION Spec
CONSTANTS KSTEP = 5
          FLOATS = TRUE
INVARIANT Emit
INVARIANT OracleTotal
CHECK_DEADLOCK FALSE
