------------------------------- MODULE MC_Defer -------------------------------
(* Mode G for C08: the finite matrix  instruction x ordered pair (or single) of value representatives x callback mode.
   One state per case; Defined partitions the matrix; the undefined part is what V_C08 demands the defer protocol on. *)
EXTENDS Defer, Json
CONSTANT REPS          \* "one": one representative per type, "many": several (empty, singleton, typical, nested)
I(n) == MkInt(n)
Str(s) == [t |-> "str", v |-> s]
One == { U, TT, FF, I(5), [t |-> "char", v |-> 97], [t |-> "byte", v |-> 7], MkSym("a"), [t |-> "symlist", v |-> <<MkSym("a"), MkSym("b")>>],
         Str(<<97, 98>>), [t |-> "bytes", v |-> <<1, 2>>], [t |-> "pair", l |-> MkSym("a"), r |-> I(1)], [t |-> "list", v |-> <<I(1), I(2)>>],
         [t |-> "concat", l |-> I(1), r |-> I(2)], [t |-> "range", l |-> I(0), r |-> I(2)],
         [t |-> "slice", l |-> [t |-> "list", v |-> <<I(1), I(2), I(3)>>], r |-> [t |-> "range", l |-> I(0), r |-> I(2)]],
         [t |-> "partial", l |-> [t |-> "expr", j |-> 0], r |-> I(1)], [t |-> "expr", j |-> 0], [t |-> "ext", v |-> 3], [t |-> "type", v |-> "Number"],
         \* a keyed list and a path with a number part: the walk  list <~ ( :a . 1 )  reaches a number and indexes it
         [t |-> "list", v |-> <<[t |-> "pair", l |-> MkSym("a"), r |-> I(1)], I(7)>>], [t |-> "symlist", v |-> <<MkSym("a"), I(1)>>] }
More == { I(0), I(-1), MkDy(1, -1), Str(<<>>), Str(<<97>>), [t |-> "bytes", v |-> <<>>], [t |-> "list", v |-> <<>>], [t |-> "list", v |-> <<[t |-> "pair", l |-> MkSym("a"), r |-> I(1)], I(7)>>],
          [t |-> "pair", l |-> I(1), r |-> I(2)], [t |-> "type", v |-> "List"], [t |-> "type", v |-> "Range"], [t |-> "symlist", v |-> <<MkSym("a"), I(1)>>],
          [t |-> "concat", l |-> [t |-> "list", v |-> <<I(1)>>], r |-> [t |-> "list", v |-> <<I(2)>>]], [t |-> "range", l |-> I(2), r |-> I(0)] }
Reps == IF REPS = "one" THEN One ELSE One \cup More
Modes == {"absent", "decline", "accept"}
\* via: "direct" = the instruction runs in the store the host configured; "clone" = a host that compiles once and serves each request
\* from a working copy (SimpleGarnishData's clone_* family; BasicGarnishData has no such operation): the copy must carry the
\* host's callbacks, so the protocol V_C08 demands is the same.
Vias(m) == IF m = "absent" THEN {"direct"} ELSE {"direct", "clone"}
VARIABLES op, l, r, mode, via
vars == <<op, l, r, mode, via>>
Init == /\ mode \in Modes
        /\ via \in Vias(mode)
        /\ \/ op \in BinaryDeferring /\ l \in Reps /\ r \in Reps
           \/ op \in UnaryDeferring /\ l \in Reps /\ r = U
Next == UNCHANGED vars
Spec == Init /\ [][Next]_vars
HostValue == I(4242)

Emit == PrintT(<<"REPLAY", ToJson(IF op \in UnaryDeferring THEN [ins |-> op, l |-> l, unary |-> TRUE, mode |-> mode, via |-> via]
                                  ELSE [ins |-> op, l |-> l, r |-> r, unary |-> FALSE, mode |-> mode, via |-> via])>>)
==============================================================================
