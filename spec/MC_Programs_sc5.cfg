SPECIFICATION Spec
CONSTANTS N = 5
  ALPHA = {"ida", "idb", "idc", "fls", "n0", "and", "or", "cond", "condf", "els", "xor", "not", "tis"}
INVARIANT Emit
CHECK_DEADLOCK FALSE
