SPECIFICATION Spec
CONSTANTS N = 4
  ALPHA = {"n0", "n1", "n2", "n5", "syma", "val", "lst", "pair", "cat", "rng", "rngs", "rnge", "rngx", "acc", "leni", "lefti", "righti", "app", "tyof", "tyeq"}
INVARIANT Emit
CHECK_DEADLOCK FALSE
