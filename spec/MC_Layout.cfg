SPECIFICATION Spec
CONSTANTS MAXS = 1
  MAXG = 1
  COPIES = 1
  RANDOM = FALSE
INVARIANT CanonicalAgrees
INVARIANT Emit
CHECK_DEADLOCK FALSE
