SPECIFICATION Spec
CONSTANTS L = 5
 CLASSES = {"val", "pre", "open", "close", "suf"}
 SEPS = {"blank", "none"}
 BALANCED = TRUE
INVARIANT Emit
CHECK_DEADLOCK FALSE
