SPECIFICATION Spec
CONSTANTS N = 9
  ALPHA = {"val", "n0", "n1", "n2", "strab", "rng", "app", "eq"}
INVARIANT Emit
CHECK_DEADLOCK FALSE
