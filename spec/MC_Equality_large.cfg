SPECIFICATION Spec
CONSTANT SIZE = "large"
INVARIANT Decidable
INVARIANT Reflexive
INVARIANT Symmetric
INVARIANT Transitive
INVARIANT Emit
CHECK_DEADLOCK FALSE
