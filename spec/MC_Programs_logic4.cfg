SPECIFICATION Spec
CONSTANTS N = 4
  ALPHA = {"val", "n0", "n1", "fls", "tru", "unit", "and", "or", "xor", "not", "tis", "cond", "els", "reap", "lt", "add"}
INVARIANT Emit
CHECK_DEADLOCK FALSE
