------------------------------- MODULE TraceVM -------------------------------
(* Trace validation of real executions against VM.tla (conformance direction code -> spec, DESIGN.md 3.2 mode V).
   The harness steps the real runtime one instruction at a time on each data implementation and records, AFTER every
   execute_current_instruction, the projected state: cursor, operand stack, `$` stack, frame return addresses,
   number of host calls, status.  Here one TLC behaviour = one recorded run: each step applies VM!Step to the
   model state and requires the next recorded event to be explained by it (logged fields are conjoined; values the
   specification leaves loose are adopted from the log).  An event that no step explains makes the run `rejected`:
     - status "panic" is explained by nothing                     -> C07
     - a stack / frame discipline broken at any step, or at end   -> C06
     - any other unexplained event (wrong value, wrong jump, missing or extra host call, runtime Err) -> TRACE
   The machine invariants are evaluated in every state of every validated behaviour. *)
EXTENDS VM, Json, IOUtils, KnownFindings
Obs == ndJsonDeserialize(IOEnv.OBS)
VARIABLES c, s, k, S, st
vars == <<c, s, k, S, st>>
Run == Obs[c].runs[s]
HostOf(o) == IF "host" \in DOMAIN o THEN [resolve |-> o.host.resolve, apply |-> o.host.apply] ELSE NoHost
Prog == [ins |-> Run.ins, jumps |-> Run.jumps]
Traced(r) == "events" \in DOMAIN r /\ "ins" \in DOMAIN r
Init == /\ c \in DOMAIN Obs
        /\ s \in DOMAIN Obs[c].runs
        /\ Traced(Obs[c].runs[s])
        /\ k = 1
        /\ S = S0(Obs[c].runs[s].start, Obs[c].runs[s].inputv)
        /\ st = "run"

SameSeq(ms, os) == Len(ms) = Len(os) /\ \A i \in DOMAIN ms : SameVal(ms[i], os[i])
\* does the model state S1 (after one step) explain the recorded event?
Explains(S1, ev) ==
  /\ ev.status \in {"run", "end", "err"}
  /\ S1.status = ev.status
  /\ (ev.status = "err" \/
      /\ (ev.status = "run" => S1.pc = ev.next)
      /\ (IF S1.loose THEN Len(ev.regs) = Len(S1.regs) + 1 /\ SameSeq(S1.regs, SubSeq(ev.regs, 1, Len(S1.regs)))
          ELSE (Run.store = "simple" /\ ev.status = "end") \/ SameSeq(S1.regs, ev.regs))     \* Simple drains its operand Vec at the end
      /\ SameSeq(S1.vals, ev.vals)
      /\ Len(S1.frames) = Len(ev.frames) /\ (\A i \in DOMAIN ev.frames : S1.frames[i].ret = ev.frames[i])
      /\ ("host" \notin DOMAIN Obs[c] \/ Len(S1.log) = ev.calls))      \* host calls are recorded only when the case installs a scripted host
Adopt(S1, ev) == IF ev.status = "err" THEN S1 ELSE [S1 EXCEPT !.regs = IF Run.store = "simple" /\ ev.status = "end" THEN S1.regs ELSE ev.regs, !.vals = ev.vals, !.loose = FALSE]

StepEvent ==
  /\ st = "run" /\ k <= Len(Run.events)
  /\ LET S1 == Step(Prog, S, HostOf(Obs[c]))  ev == Run.events[k] IN
     IF Explains(S1, ev)
     THEN /\ S' = Adopt(S1, ev) /\ k' = k + 1
          /\ st' = IF ev.status = "run" THEN "run" ELSE "done"
     ELSE /\ S' = S1 /\ k' = k /\ st' = "rejected"
  /\ UNCHANGED <<c, s>>
Next == StepEvent
Spec == Init /\ [][Next]_vars

\* ---- what is checked in every state
\* why a step is not explained: a panic (C07); the step left ANOTHER NUMBER of operands, input values or frames than the
\* instruction's arity dictates (C06: "every instruction has a fixed pop / push arity"); anything else (a value, a jump, a host
\* call, a runtime Err) is drift between VM.tla and the code, measured by the driver and never an alarm of C06.
DepthsDiffer(S1, ev) == /\ ev.status \in {"run", "end"} /\ S1.status = ev.status
                        /\ \/ (Len(ev.regs) # Len(S1.regs) + (IF S1.loose THEN 1 ELSE 0) /\ ~(Run.store = "simple" /\ ev.status = "end"))
                           \/ Len(ev.vals) # Len(S1.vals)
                           \/ Len(ev.frames) # Len(S1.frames)
Why == LET ev == Run.events[k]  S1 == Step(Prog, S, HostOf(Obs[c])) IN
       IF ev.status = "panic" THEN "C07" ELSE IF DepthsDiffer(S1, ev) THEN "C06" ELSE "TRACE"
Accepted == st # "rejected" \/
            PrintT(<<"FAIL", ToJson([c |-> c, store |-> Run.store, src |-> Obs[c].src, prop |-> Why, at |-> k, why |-> "an instruction left another number of operands, input values or frames than its arity dictates",
                                     event |-> Run.events[k], model |-> S,
                                     ins |-> IF S.pc >= 0 /\ S.pc < Len(Run.ins) THEN Run.ins[S.pc + 1].op ELSE "none",
                                     kf |-> KF_Trace(Why, Obs[c], Run, k)])>>)
\* C06 at every step: frames well nested below the operand stack, one `$` per active frame plus the program's own
\* and no instruction ever finds fewer operands than it pops (the machine's own Err status)
Discipline == (st = "rejected") \/ (FramesWellNested(S) /\ ValsCoverFrames(S) /\ S.status # "err") \/
              PrintT(<<"FAIL", ToJson([c |-> c, store |-> Run.store, src |-> Obs[c].src, prop |-> "C06", at |-> k, why |-> IF S.status = "err" THEN "operand stack underflow" ELSE "stack discipline", model |-> S,
                                     kf |-> KF_Trace("C06", Obs[c], Run, k)])>>)
\* C06 at completion: operand stack, `$` stack and frame chain back at their initial depths
Restored == (st # "done") \/ (S.status # "end") \/ (S.regs = <<>> /\ Len(S.vals) = 1 /\ S.frames = <<>>) \/
            PrintT(<<"FAIL", ToJson([c |-> c, store |-> Run.store, src |-> Obs[c].src, prop |-> "C06", at |-> k, why |-> "depths not restored at end", model |-> S, kf |-> "NEW"])>>)
==============================================================================
