SPECIFICATION Spec
CONSTANTS L = 4
 CLASSES = {"val", "id", "pre", "suf", "bin", "comma", "open", "close", "nopen", "nclose", "sopen", "sclose"}
 SEPS = {"blank", "annot0", "lineannot"}
 BALANCED = TRUE
INVARIANT Emit
CHECK_DEADLOCK FALSE
