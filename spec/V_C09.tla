-------------------------------- MODULE V_C09 --------------------------------
(* Mode V for C09: TLC evaluates the property-layer expectation of NumberProps on every (operation, operands,
   results) record observed from the real code: the GarnishNumber method on SimpleNumber and the
   corresponding instruction executed on SimpleGarnishData and BasicGarnishData. *)
EXTENDS NumberProps, Json, IOUtils, KnownFindings
Obs == ndJsonDeserialize(IOEnv.OBS)
VARIABLE c
Init == c \in DOMAIN Obs
Next == UNCHANGED c
Spec == Init /\ [][Next]_c
Sites == <<"method", "simple", "basic">>
SiteObs(o, s) == CASE s = "method" -> o.method [] s = "simple" -> o.simple [] OTHER -> o.basic
Fails(o) ==
  LET exp == Expect(o.op, o.an, o.bn)
      Bad(s) == ~Agrees(exp, SiteObs(o, s))
      One(s) == [site |-> s, expected |-> exp, observed |-> SiteObs(o, s), kf |-> KF_C09(o, s, exp)]
  IN SelectSeq([i \in 1..3 |-> One(Sites[i])], LAMBDA f : Bad(f.site))
Report == LET f == Fails(Obs[c]) IN f = <<>> \/ PrintT(<<"FAIL", ToJson([c |-> c, op |-> Obs[c].op, a |-> Obs[c].an, b |-> Obs[c].bn, fails |-> f])>>)
==============================================================================
