SPECIFICATION Spec
INVARIANT Accepted
INVARIANT Discipline
INVARIANT Restored
CHECK_DEADLOCK FALSE
