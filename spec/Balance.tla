------------------------------- MODULE Balance -------------------------------
(* C06, static half: TLC as the ALL-PATHS abstract interpreter of operand-stack depth over the instruction streams
   recorded from the real build().  Init picks a recorded program and one of its entry points (the program start,
   and the body of every nested expression, each entered with nothing pending); the abstract state is (pc, depth);
   conditional instructions have both successors; Apply is "pop 2, push 1" (the callee is explored from its own
   entry).  Because the abstract state space of one program is finite, loops (Reapply back-edges) reach a fixpoint:
   the verdict covers every iteration count.
     - no instruction finds fewer operands than it pops                       (Underflow)
     - exactly one operand where an expression ends                           (BadEnd)
     - a Reapply re-enters its expression with nothing pending                (BadLoop)
     - a straight-line run never falls off the instruction stream             (Fall)
   If two paths reached one instruction with different depths, their common continuation would carry the difference
   to an EndExpression, where at most one of them can be 1; so "same depth on every path" follows. *)
EXTENDS Integers, Sequences, TLC, Json, IOUtils, KnownFindings
Obs == ndJsonDeserialize(IOEnv.OBS)
MAXD == 40
Two == {"Add","Subtract","Multiply","Divide","IntegerDivide","Power","Remainder","BitwiseAnd","BitwiseOr","BitwiseXor","BitwiseShiftLeft",
        "BitwiseShiftRight","Xor","TypeEqual","Equal","NotEqual","LessThan","LessThanOrEqual","GreaterThan","GreaterThanOrEqual","MakePair",
        "Access","MakeRange","MakeStartExclusiveRange","MakeEndExclusiveRange","MakeExclusiveRange","Concat","PartialApply","Apply","ApplyType"}
One == {"Opposite","AbsoluteValue","BitwiseNot","Not","Tis","TypeOf","AccessLeftInternal","AccessRightInternal","AccessLengthInternal","EmptyApply"}
Zero == {"Put","PutValue","Resolve"}
VARIABLES c, s, pc, depth, st
vars == <<c, s, pc, depth, st>>
R == Obs[c].runs[s]
HasProg(r) == "ins" \in DOMAIN r
Ins == R.ins[pc + 1]
J(d) == R.jumps[d + 1]
JOk(d) == d >= 0 /\ d < Len(R.jumps)
Roots(r) == {r.start} \cup { r.jumps[r.ins[i].c.j + 1] : i \in { i \in DOMAIN r.ins : r.ins[i].op = "Put" /\ r.ins[i].c.t = "expr" /\ r.ins[i].c.j < Len(r.jumps) } }
Init == /\ c \in DOMAIN Obs /\ s \in DOMAIN Obs[c].runs /\ HasProg(Obs[c].runs[s])
        /\ pc \in Roots(Obs[c].runs[s]) /\ depth = 0 /\ st = "run"
Go(p, d) == pc' = p /\ depth' = d /\ st' = "run" /\ UNCHANGED <<c, s>>
Stop(x) == st' = x /\ UNCHANGED <<c, s, pc, depth>>
Need(n) == depth >= n
Step ==
  /\ st = "run"
  /\ IF pc < 0 \/ pc >= Len(R.ins) THEN Stop("fall")
     ELSE LET op == Ins.op  d == Ins.d IN
       CASE op = "EndExpression" -> Stop(IF depth = 1 THEN "done" ELSE "badend")
         [] op = "JumpTo" -> IF JOk(d) THEN Go(J(d), depth) ELSE Stop("badjump")
         [] op \in {"JumpIfTrue","JumpIfFalse"} -> IF ~Need(1) THEN Stop("underflow") ELSE IF ~JOk(d) THEN Stop("badjump") ELSE Go(J(d), depth - 1) \/ Go(pc + 1, depth - 1)
         [] op \in {"And","Or"} -> IF ~Need(1) THEN Stop("underflow") ELSE IF ~JOk(d) THEN Stop("badjump") ELSE Go(J(d), depth - 1) \/ Go(pc + 1, depth)
         [] op = "Reapply" -> IF ~Need(1) THEN Stop("underflow") ELSE IF ~JOk(d) THEN Stop("badjump") ELSE IF depth = 1 THEN Stop("done") ELSE Stop("badloop")
         [] op = "MakeList" -> IF d < 0 \/ ~Need(d) THEN Stop("underflow") ELSE Go(pc + 1, depth - d + 1)
         [] op \in Two -> IF ~Need(2) THEN Stop("underflow") ELSE Go(pc + 1, depth - 1)
         [] op \in One -> IF ~Need(1) THEN Stop("underflow") ELSE Go(pc + 1, depth)
         [] op \in Zero -> Go(pc + 1, depth + 1)
         [] op \in {"UpdateValue","PushValue","EndSideEffect"} -> IF ~Need(1) THEN Stop("underflow") ELSE Go(pc + 1, depth - 1)
         [] op = "StartSideEffect" -> Go(pc + 1, depth)
         [] OTHER -> Stop("fall")
Spec == Init /\ [][Step]_vars
Bound == depth <= MAXD
Balanced == (st \in {"run", "done"} /\ depth < MAXD) \/
            PrintT(<<"FAIL", ToJson([c |-> c, store |-> R.store, src |-> Obs[c].src, prop |-> "C06", why |-> IF depth >= MAXD THEN "depth grows without bound" ELSE st,
                                     pc |-> pc, depth |-> depth, kf |-> KF_Balance(st, Obs[c], R, pc)])>>)
==============================================================================
