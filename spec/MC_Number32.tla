----------------------------- MODULE MC_Number32 -----------------------------
(* NaN and infinite OPERANDS are outside the quantifier of C09 ("zeros, subnormals, huge and fractional values")
   and are exercised by C12; non-finite RESULTS of finite operands are in scope (Power of a negative base).
   Mode G for C09, part 2: enumerate the boundary lattice of i32 operands x every operation, and float /
   mixed pairs over an exact dyadic lattice, as REPLAY cases for the real code.  One state per case.
   The expectation is recomputed by V_C09 from the case itself, so this module only chooses WHAT to run
   (and, through Expect being evaluated here too, shows the oracle is total on the lattice). *)
EXTENDS NumberProps, Json, FiniteSets
CONSTANTS KSTEP,        \* use exponents k = 0, KSTEP, 2*KSTEP, ... (1 = the full lattice of the property statement)
          FLOATS        \* TRUE: also float and mixed pairs
Ks == { k \in 0..30 : k % KSTEP = 0 \/ k \in {1, 15, 16, 29, 30} }
P2(k) == N32!Pow2(k)
IntLattice == {N32!MINW, N32!MINW + 1, N32!MAXW - 1, N32!MAXW, -1, 0, 1, 31, 32, 33, 63, 64, -31, -32}
              \cup { P2(k) : k \in Ks } \cup { P2(k) - 1 : k \in Ks } \cup { P2(k) + 1 : k \in Ks }
              \cup { -P2(k) : k \in Ks } \cup { -P2(k) - 1 : k \in Ks } \cup { -P2(k) + 1 : k \in Ks }
I(v) == [t |-> "int", v |-> v]
F(m, e) == [t |-> "float", m |-> m, e |-> e]
FS(s) == [t |-> "float", s |-> s]
FloatLattice == { F(0, 0), F(1, 0), F(-1, 0), F(1, -1), F(3, -1), F(-9, -2), F(5, 0), F(3, 0), F(1, 10), F(-1, 31), F(1, 31),
                  F(2147483647, 0), F(1, 52), F(1, 1023), F(-1, 1023), F(2147483647, 993), F(1, -1074), F(1, -1022), F(3, -1070),
                  F(1, 600), F(1, -600), F(7, -3), F(255, 0), F(33, 0), F(-1, 5) }
                \cup { FS("-0.0"), FS("0.1"), FS("1e308"), FS("2.5e-320"), FS("123456789.125") }
IntForMixed == {N32!MINW, N32!MAXW, -1, 0, 1, 2, 3, 31, 32, -8, 1024}
VARIABLES op, a, b
vars == <<op, a, b>>
IntCases == /\ a \in {I(v) : v \in IntLattice}
            /\ b \in (IF op \in N32!BinaryOps THEN {I(v) : v \in IntLattice} ELSE {I(0)})
FloatCases == /\ FLOATS
              /\ \/ a \in FloatLattice /\ b \in (IF op \in N32!BinaryOps THEN FloatLattice \cup {I(v) : v \in IntForMixed} ELSE {I(0)})
                 \/ op \in N32!BinaryOps /\ a \in {I(v) : v \in IntForMixed} /\ b \in FloatLattice
Init == op \in N32!BinaryOps \cup N32!UnaryOps /\ (IntCases \/ FloatCases)
Next == UNCHANGED vars
Spec == Init /\ [][Next]_vars
Case == IF op \in N32!BinaryOps THEN [op |-> op, a |-> a, b |-> b] ELSE [op |-> op, a |-> a]
Emit == PrintT(<<"REPLAY", ToJson(Case)>>)
\* the integer oracle is total and in range on the whole lattice (TLC would raise an overflow error otherwise)
OracleTotal == (IsInt(a) /\ IsInt(b)) => Expect(op, a, b).k \in {"unit", "int"}
=============================================================================
