------------------------------ MODULE MC_SliceEq ------------------------------
(* Mode G: comparisons of two slices, every pair of ranges over 0..2 (and one range that leaves the sliced value) of the
   input list / of a text, compared with == and != ; too deep for the size-bounded enumeration of MC_Programs. *)
EXTENDS Lang, Json
Nums == {"n0", "n1", "n2"}
Srcs == {"val", "strab"}
VARIABLES ast
Init == \E op \in {"eq", "ne"}, s1, s2 \in Srcs, a, b, c, d \in Nums, r1, r2 \in {"rng", "rnge"} :
           ast = <<op, "app", s1, r1, a, b, "app", s2, r2, c, d>>
Next == UNCHANGED ast
Spec == Init /\ [][Next]_ast
Emit == WellFormed(TreeOf(ast)) => PrintT(<<"REPLAY", ToJson([ast |-> ast, toks |-> Texts(Pr(TreeOf(ast)))])>>)
==============================================================================
