-------------------------------- MODULE V_C18 --------------------------------
(* Mode V for C18: each observation is a program text b and a rewritten text v (MC_Layout), both pushed through the real
   lexer, parser, builder and runtime (both stores).  TLC decides
     applicable   the rewritten text still consists of the tokens the rewrite was built from (gluing two tokens by
                  removing a blank makes a different program: no verdict),
     same tree    the two parse trees are equal up to group nodes and attached side-effect blocks,
     same result  on each store the two runs end alike (same value / same error). *)
EXTENDS Values, TLC, Json, IOUtils, KnownFindingsLex
Obs == ndJsonDeserialize(IOEnv.OBS)
VARIABLE c
Init == c \in DOMAIN Obs
Next == UNCHANGED c
Spec == Init /\ [][Next]_c
Has(o, f) == f \in DOMAIN o
RECURSIVE Norm(_, _, _)
\* the tree below node i without group nodes and without the side-effect blocks hanging on values: <<>> or <<[d, text, l, r]>>
Norm(ns, i, fuel) ==
  IF i < 0 \/ i >= Len(ns) \/ fuel = 0 THEN <<>>
  ELSE LET n == ns[i + 1]
           Keep(j) == IF j >= 0 /\ j < Len(ns) /\ ns[j + 1].d = "SideEffect" THEN -1 ELSE j IN
       IF n.d = "Group" THEN Norm(ns, n.r, fuel - 1)
       \* (the invented list node carries the blanks between its operands as its text: not compared)
       ELSE <<[d |-> n.d, text |-> IF n.d = "List" THEN <<>> ELSE n.text, l |-> Norm(ns, Keep(n.l), fuel - 1), r |-> Norm(ns, Keep(n.r), fuel - 1)]>>
TreeOfObs(x) == Norm(x.nodes, x.root, Len(x.nodes) + 2)
Parsed(x) == Has(x, "nodes")
SigTexts(x) == [i \in DOMAIN x.sig |-> x.sig[i].text]
SameOutcome(a, b) == /\ a.status = b.status
                     /\ (a.status = "ok" => SameVal(a.value, b.value))
                     /\ (a.status # "ok" => a.msgk = b.msgk)
\* the rewrite is applicable when both texts lex and the rewritten one has exactly the intended tokens (given as texts by the model)
Applicable(o) == /\ Has(o.b, "sig") /\ Has(o.v, "sig")
                 /\ o.v.sigs = o.toks
                 /\ Parsed(o.b) /\ o.b.status = "ok"
Fails(o) ==
  IF Has(o, "outcome") THEN <<"the worker did not return: " \o o.outcome>>
  ELSE IF ~Applicable(o) THEN <<>>
  ELSE IF ~Parsed(o.v) THEN <<"the rewritten text is rejected (" \o o.v.stage \o " " \o o.v.status \o ")">>
  ELSE (IF TreeOfObs(o.b) = TreeOfObs(o.v) THEN <<>> ELSE <<"the parse tree changed">>)
       \o (IF \A i \in DOMAIN o.b.runs : SameOutcome(o.b.runs[i], o.v.runs[i]) THEN <<>> ELSE <<"the result changed">>)
Kinds(o) == [i \in DOMAIN o.rw |-> o.rw[i].k]
Report == Fails(Obs[c]) = <<>> \/ PrintT(<<"FAIL", ToJson([c |-> c, base |-> Obs[c].base, text |-> Obs[c].text, rw |-> Kinds(Obs[c]), fails |-> Fails(Obs[c]),
                                                          kf |-> IF Has(Obs[c].v, "nodes") /\ HasSideEffect(Obs[c].v) THEN "C04-side-effect-blocks" ELSE "NEW"])>>)
Stat == (~Has(Obs[c], "outcome") /\ Applicable(Obs[c])) => PrintT(<<"STAT", ToJson([c |-> c, accepted |-> TRUE])>>)
==============================================================================
