------------------------------ MODULE LexerProps ------------------------------
(* Property layer of C13: what a SUCCESSFUL lex(input) = tokens must satisfy, as functions of the input (code points)
   and the returned tokens (text, type, row, column) alone - no reference to how the lexer works.  The statement does
   not say WHEN lex must succeed, so nothing here does either (an input the lexer rejects satisfies C13 trivially). *)
EXTENDS TokenTable, FiniteSets
Flat(ts) == FoldLeft(LAMBDA acc, t : acc \o t.text, <<>>, ts)
NL == 10
CR == 13
RECURSIVE CountNL(_, _, _)
CountNL(s, lo, hi) == IF lo > hi THEN 0 ELSE (IF s[lo] = NL THEN 1 ELSE 0) + CountNL(s, lo + 1, hi)
RECURSIVE LastNL(_, _)
LastNL(s, i) == IF i = 0 THEN 0 ELSE IF s[i] = NL THEN i ELSE LastNL(s, i - 1)
Row(s, off) == CountNL(s, 1, off)          \* off = number of characters before the token
Col(s, off) == off - LastNL(s, off)
IsPrefixOf(a, b) == Len(a) <= Len(b) /\ SubSeq(b, 1, Len(a)) = a
RECURSIVE Offsets(_, _, _)
Offsets(ts, k, off) == IF k > Len(ts) THEN <<>> ELSE <<off>> \o Offsets(ts, k + 1, off + Len(ts[k].text))
\* characters that can neither start nor continue a token outside text, byte lists and annotations
BadCodes == {CodeOf("BS"), CodeOf("CTL"), CodeOf("EMOJI"), CodeOf("NBSP")}
Opaque == {"CharList", "ByteList", "LineAnnotation", "Annotation"}
Blankish == {"Whitespace", "Subexpression"}
TokAt(ts, offs, pos) == CHOOSE k \in DOMAIN ts : offs[k] < pos /\ pos <= offs[k] + Len(ts[k].text)     \* pos is 1-based
\* a blank line: two newlines with only spaces / tabs between them
BlankLines(s) == { pq \in (DOMAIN s) \X (DOMAIN s) : pq[1] < pq[2] /\ s[pq[1]] = NL /\ s[pq[2]] = NL
                                                       /\ \A i \in (pq[1] + 1)..(pq[2] - 1) : s[i] \in {32, 9} }
\* literal classes: the shape a token of each literal type must have
DQ == 34
SQ == 39
IsBlank(c) == c \in {32, 9, 13, 10}
IsDigitC(c) == c \in {CodeOf("1"), CodeOf("0")} \/ (c >= 48 /\ c <= 57)
IsIdentC(c) == (c >= 48 /\ c <= 57) \/ (c >= 65 /\ c <= 90) \/ (c >= 97 /\ c <= 122) \/ c \in {95, 58, 233}
Quoted(t, q) == Len(t) >= 2 /\ t[1] = q /\ t[Len(t)] = q
ShapeOK(tk) ==
  LET t == tk.text IN
  CASE tk.ty = "CharList" -> Quoted(t, DQ)
    [] tk.ty = "ByteList" -> Quoted(t, SQ)
    [] tk.ty = "Number" -> IsDigitC(t[1]) \/ (Len(t) >= 2 /\ t[1] = 46 /\ IsDigitC(t[2]))
    [] tk.ty = "Symbol" -> t[1] = 58 /\ \A i \in DOMAIN t : IsIdentC(t[i])
    [] tk.ty = "Identifier" -> \A i \in DOMAIN t : IsIdentC(t[i])
    [] tk.ty = "Whitespace" -> \A i \in DOMAIN t : IsBlank(t[i])
    [] tk.ty = "Subexpression" -> (\A i \in DOMAIN t : IsBlank(t[i])) /\ Cardinality({i \in DOMAIN t : t[i] \in {10, 13}}) >= 2
    [] OTHER -> TRUE
\* the first clause of the statement that fails, or "ok"
Verdict(s, ts) ==
  LET offs == Offsets(ts, 1, 0) IN
  IF Flat(ts) # s THEN "lossless: the token texts do not concatenate to the input"
  ELSE IF \E k \in DOMAIN ts : ts[k].text = <<>> THEN "an empty token"
  ELSE IF CR \notin Range(s) /\ (\E k \in DOMAIN ts : (ts[k].row # Row(s, offs[k]) \/ ts[k].col # Col(s, offs[k]))) THEN "position: line/column is not that of the token's first character"
  ELSE IF \E k \in DOMAIN ts : (ts[k].ty \in OpTypes /\ TypeOfCodes(ts[k].text) # ts[k].ty) THEN "classification: operator token whose type is not the table's type for its spelling"
  ELSE IF \E k \in DOMAIN ts : (ts[k].ty \in OpTypes /\ \E sp \in CodeSpellings : Len(sp) > Len(ts[k].text) /\ IsPrefixOf(sp, SubSeq(s, offs[k] + 1, Len(s)))) THEN "longest match: a longer operator spelling starts at this token"
  ELSE IF \E k \in DOMAIN ts : (ts[k].ty \notin OpTypes /\ ts[k].ty \notin Opaque /\ ts[k].text \in CodeSpellings) THEN "classification: an operator spelling typed as a literal"
  ELSE IF \E k \in DOMAIN ts : ~ShapeOK(ts[k]) THEN "classification: a literal token that does not have the shape of its class"
  ELSE IF \E k \in DOMAIN ts : (ts[k].ty \notin Opaque /\ Range(ts[k].text) \cap BadCodes # {}) THEN "a character that can be part of no token was kept inside one"
  ELSE IF \E pq \in BlankLines(s) : LET k1 == TokAt(ts, offs, pq[1])  k2 == TokAt(ts, offs, pq[2]) IN
                                     ts[k1].ty \in Blankish /\ ts[k2].ty \in Blankish /\ ts[k1].ty # "Subexpression" /\ ts[k2].ty # "Subexpression"
       THEN "a blank line did not separate sub-expressions"
  ELSE "ok"
==============================================================================
