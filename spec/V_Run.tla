-------------------------------- MODULE V_Run --------------------------------
(* Mode V for whole-program executions (C01, C06 dynamic half, C10, C17, and the result half of C18/C20):
   every observation is one source text run on both data implementations; TLC recomputes what the program MEANS
   with the reference evaluator (Eval.tla) from the AST the text was printed from, and compares
     - the final value (SameVal; C01),
     - the host call log: which identifiers were resolved / externals applied, in which order, how often (C10, C17),
     - the depths of operand stack, input-value stack and frame chain after completion (C06).
   A run that does not complete (compile error, runtime Err, panic, step budget) fails C01 outright. *)
EXTENDS Eval, Json, IOUtils, KnownFindings
Obs == ndJsonDeserialize(IOEnv.OBS)
VARIABLE c
Init == c \in DOMAIN Obs
Next == UNCHANGED c
Spec == Init /\ [][Next]_c

HostOf(o) == IF "host" \in DOMAIN o THEN [resolve |-> o.host.resolve, apply |-> o.host.apply] ELSE [resolve |-> <<>>, apply |-> <<>>]
InputOf(o) == IF "input" \in DOMAIN o THEN o.input ELSE U
HostCalls(log) == SelectSeq(log, LAMBDA e : e.cb \in {"resolve", "apply"})
SameCall(m, e) == /\ m.cb = e.cb /\ m.answered = e.answered
                  /\ IF m.cb = "resolve" THEN m.sym = e.sym ELSE m.ext = e.ext /\ SameVal(m.arg, e.arg)
SameLog(ml, ol) == Len(ml) = Len(ol) /\ \A i \in DOMAIN ml : SameCall(ml[i], ol[i])

RunFails(o, r, exp) ==
  LET F(prop, why) == [prop |-> prop, store |-> r.store, why |-> why, status |-> r.status,
                       msg |-> IF "msg" \in DOMAIN r THEN r.msg ELSE "",
                       msgk |-> IF "msgk" \in DOMAIN r THEN r.msgk ELSE "",
                       got |-> IF "value" \in DOMAIN r THEN r.value ELSE U,
                       gotlog |-> IF "log" \in DOMAIN r THEN HostCalls(r.log) ELSE <<>>,
                       kf |-> KF_Run(prop, why, o, r)] IN
  IF r.status = "panic" THEN <<F("C07", "panic while executing")>>     \* whatever the program means, stepping it must not panic
  ELSE IF r.status = "compilepanic" THEN <<F("C03", "panic while compiling")>>
  ELSE IF IsSkip(exp.v) THEN <<>>      \* outside the fragment the evaluator specifies: no verdict (C07/C08 still apply to it)
  ELSE IF r.status # "ok" THEN (IF HasSkip(exp.v) THEN <<>> ELSE <<F("C01", "not completed: " \o r.status)>>)
  ELSE (IF SameVal(exp.v, r.value) THEN <<>> ELSE <<F("C01", "value")>>)
    \o (IF r.dregs = 0 /\ r.dvals = 0 /\ r.dframes = 0 THEN <<>> ELSE <<F("C06", "depths not restored")>>)
    \o (IF IsSkip(exp.v) \/ SameLog(exp.log, HostCalls(r.log)) THEN <<>> ELSE <<F("C17", "host call log")>>)
Fails(o) ==
  LET exp == Run(TreeOf(o.ast), InputOf(o), HostOf(o), FUELMAX)
      per == [i \in DOMAIN o.runs |-> RunFails(o, o.runs[i], exp)]
      RECURSIVE Cat(_)
      Cat(i) == IF i > Len(per) THEN <<>> ELSE per[i] \o Cat(i + 1)
  IN [exp |-> exp, fails |-> Cat(1)]
Report == LET f == Fails(Obs[c]) IN
          f.fails = <<>> \/ PrintT(<<"FAIL", ToJson([c |-> c, src |-> Obs[c].src, expv |-> f.exp.v, explog |-> f.exp.log, fails |-> f.fails])>>)
\* how many observations are fully specified by the evaluator (vacuity guard; counted by bin/check from STAT lines)
Stat == LET e == Run(TreeOf(Obs[c].ast), InputOf(Obs[c]), HostOf(Obs[c]), FUELMAX) IN
        IsSkip(e.v) => PrintT(<<"STAT", ToJson([c |-> c, skip |-> TRUE])>>)
==============================================================================
