SPECIFICATION Spec
CONSTANTS KSTEP = 1
          FLOATS = TRUE
INVARIANT Emit
INVARIANT OracleTotal
CHECK_DEADLOCK FALSE
