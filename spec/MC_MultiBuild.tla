---------------------------- MODULE MC_MultiBuild ----------------------------
(* Mode G for C20: every schedule of builds and executions of K programs into one data object: the programs are built
   in every order, up to MAXX executions of already built programs are interleaved anywhere between the builds, and
   finally every program is run once from its reported entry.  Segment sizes are chosen nondeterministically, so that
   the design-level facts (segments stay disjoint and inside the tables, earlier segments never move) are checked by
   TLC for every size; the schedule (without sizes) is printed for replay. *)
EXTENDS MultiBuild, TLC, Json
CONSTANTS K, MAXX
VARIABLES st, sched, nx, done
vars == <<st, sched, nx, done>>
P == 0..(K - 1)
Ev(k, p) == [k |-> k, p |-> p]
Init == st \in { Empty, ResidueStep(Empty, 1, 1, 2) } /\ sched = <<>> /\ nx = 0 /\ done = FALSE
Build(p) == /\ ~done /\ p \notin Built(st)
            /\ \E isz \in 1..2, jsz \in 1..2, dsz \in 0..1 : st' = BuildStep(st, p, isz, jsz, dsz)
            /\ sched' = Append(sched, Ev("B", p)) /\ UNCHANGED <<nx, done>>
Exec(p) == /\ ~done /\ p \in Built(st) /\ Built(st) # P /\ nx < MAXX
           /\ \E r \in 0..1 : st' = ExecStep(st, p, r)
           /\ sched' = Append(sched, Ev("X", p)) /\ nx' = nx + 1 /\ UNCHANGED done
RECURSIVE FinalRuns(_)
FinalRuns(p) == IF p >= K THEN <<>> ELSE <<Ev("X", p)>> \o FinalRuns(p + 1)
Finish == /\ ~done /\ Built(st) = P
          /\ sched' = sched \o FinalRuns(0) /\ done' = TRUE /\ UNCHANGED <<st, nx>>
Next == (\E p \in P : Build(p) \/ Exec(p)) \/ Finish
Spec == Init /\ [][Next]_vars
SegmentsStayApart == SegsOK(st)
EarlierUntouched == [][Extends(st, st')]_vars
View == <<sched, done, st.ilen = 0>>
Emit == done => PrintT(<<"REPLAY", ToJson([sched |-> sched, residue |-> st.segs[1].ibase > 0])>>)
==============================================================================
