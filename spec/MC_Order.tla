------------------------------- MODULE MC_Order -------------------------------
(* Mode G for C12: the operand universe for the ordering comparisons - the numeric boundary lattice with mixed
   int / float neighbours (2^24+1 as integer and as float, 2^31 as float next to i32::MAX, halves, zeros, subnormal and
   huge floats, NaN and the infinities), every string and byte list up to length 2 (3 for a few) over a small alphabet
   including proper prefixes and the empty one, characters and bytes, and representatives of every other type for the
   cross-type pairs.  Design-level: NatOrder of Values.tla is a strict total order on each ordered kind
   (trichotomy, converse, transitivity) - one state per triple. *)
EXTENDS Values, Json, SequencesExt
CONSTANT SIZE
I(n) == MkInt(n)
NaN == [t |-> "float", k |-> "nan", sg |-> 0, s |-> "NaN"]
PInf == [t |-> "float", k |-> "inf", sg |-> 1, s |-> "inf"]
NInf == [t |-> "float", k |-> "ninf", sg |-> -1, s |-> "-inf"]
Ints == {I(-2147483647 - 1), I(-2147483647), I(-16777217), I(-1), I(0), I(1), I(2), I(16777216), I(16777217), I(2147483646), I(2147483647)}
Floats == {MkDy(0, 0), MkDy(1, -1), MkDy(-1, -1), MkDy(1, 0), MkDy(3, -1), MkDy(16777217, 0), MkDy(1, 24), MkDy(1, 31), MkDy(-1, 31),
           MkDy(2147483647, 0), MkDy(1, 53), MkDy(1, -1074), MkDy(1, 1023), MkDy(-1, 1023), NaN, PInf, NInf}
Alpha == {97, 98}
Strs == {<<>>} \cup {<<x>> : x \in Alpha \cup {233}} \cup {<<x, y>> : x \in Alpha, y \in Alpha} \cup {<<97, 97, 98>>, <<97, 98, 98>>, <<98, 97, 97>>}
        \cup {<<233, 97>>, <<233, 98>>, <<234>>}          \* a multi-byte character in the common prefix: positions are characters, not bytes
Bys == {<<>>, <<1>>, <<2>>, <<1, 1>>, <<1, 2>>, <<2, 1>>, <<255>>, <<1, 2, 3>>}
Numbers == IF SIZE = "small" THEN {I(-2147483647 - 1), I(-1), I(0), I(1), I(16777217), I(2147483647), MkDy(0, 0), MkDy(1, -1), MkDy(16777217, 0), MkDy(1, 24), MkDy(1, 31), MkDy(-1, 31), MkDy(1, 1023), NaN, PInf}
           ELSE Ints \cup Floats
Others == {U, TT, FF, MkSym("a"), [t |-> "list", v |-> <<I(1)>>], [t |-> "pair", l |-> I(1), r |-> I(2)], [t |-> "type", v |-> "Number"],
           [t |-> "range", l |-> I(0), r |-> I(1)], [t |-> "concat", l |-> I(1), r |-> I(2)], [t |-> "expr", j |-> 0], [t |-> "symlist", v |-> <<MkSym("a"), MkSym("b")>>]}
Universe == Numbers \cup {[t |-> "str", v |-> s] : s \in Strs} \cup {[t |-> "bytes", v |-> s] : s \in Bys}
            \cup {[t |-> "char", v |-> x] : x \in {97, 98, 233}} \cup {[t |-> "byte", v |-> x] : x \in {0, 1, 255}} \cup Others
VARIABLES a, b, c, phase
vars == <<a, b, c, phase>>
OrderedSets == {Numbers \ {NaN}, {[t |-> "str", v |-> s] : s \in Strs}, {[t |-> "bytes", v |-> s] : s \in Bys}}
Init == \/ phase = "emit" /\ a = U /\ b = U /\ c = U
        \/ phase = "laws" /\ \E S \in OrderedSets : a \in S /\ b \in S /\ c \in S
Next == UNCHANGED vars
Spec == Init /\ [][Next]_vars
O(x, y) == NatOrder(x, y)
Decided == phase = "laws" => O(a, b) # None
Trichotomy == phase = "laws" => (O(a, b)[1] \in {"lt", "eq", "gt"} /\ (O(a, b)[1] = "eq" <=> StructEq(a, b) = Some(TRUE)))
Converse == phase = "laws" => (O(a, b)[1] = "lt" <=> O(b, a)[1] = "gt")
TransitiveOrder == phase = "laws" => ((O(a, b)[1] = "lt" /\ O(b, c)[1] = "lt") => O(a, c)[1] = "lt")
Emit == phase = "emit" => PrintT(<<"REPLAY", ToJson([vals |-> SetToSeq(Universe)])>>)
==============================================================================
