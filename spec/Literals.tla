------------------------------- MODULE Literals -------------------------------
(* Property layer of C14: how values are SPELLED as literals and what a spelling denotes.
   Source texts are sequences of code points.  Spell* builds a spelling from a value and a choice of form; the value a
   spelling must evaluate to is the value it was built from (for raw line breaks / tabs inside a single-quoted char
   list: the value without them, as the language documents).  So every case is "this spelling denotes this value", and
   the set of cases per value shows that every value HAS a spelling that evaluates back to it.

   number   decimal digits with `_` separators; `0R_digits` for radix R in 2..36 (digits 0-9 A-Z); decimal fractions
   text     "..."  """..."""  """"...""""  ; escapes \n \t \r \0 \\ \" \u{HEX}
   bytes    '...' one byte per character, same escapes ; '''n n n''' space-separated numbers
   symbol   :name *)
EXTENDS Integers, Sequences, TLC
Dig(d) == IF d < 10 THEN 48 + d ELSE 55 + d            \* 0-9 A-Z
RECURSIVE Digits(_, _)
Digits(v, R) == IF v < R THEN <<Dig(v)>> ELSE Append(Digits(v \div R, R), Dig(v % R))
Dec(v) == Digits(v, 10)
Hex(v) == Digits(v, 16)
US == 95
\* insert `_` after every k-th digit (counting from the left), k = 0: none
RECURSIVE Sep(_, _, _)
Sep(ds, k, i) == IF ds = <<>> THEN <<>> ELSE <<ds[1]>> \o (IF k > 0 /\ i % k = 0 /\ Len(ds) > 1 THEN <<US>> ELSE <<>>) \o Sep(Tail(ds), k, i + 1)
SpellDecimal(v, k) == Sep(Dec(v), k, 1)
SpellRadix(v, R, k) == <<48>> \o Dec(R) \o <<US>> \o Sep(Digits(v, R), k, 1)
\* an exact binary fraction  n / 2^f  as a decimal:  integer part . fraction digits (f of them: n*5^f / 10^f)
RECURSIVE Pow(_, _)
Pow(b, n) == IF n = 0 THEN 1 ELSE b * Pow(b, n - 1)
RECURSIVE PadLeft(_, _)
PadLeft(ds, n) == IF Len(ds) >= n THEN ds ELSE PadLeft(<<48>> \o ds, n)
SpellFraction(n, f) == Dec(n \div Pow(2, f)) \o <<46>> \o PadLeft(Dec((n % Pow(2, f)) * Pow(5, f)), f)

DQ == 34   SQ == 39   BS == 92
EscOf(c) == CASE c = 10 -> <<BS, 110>> [] c = 9 -> <<BS, 116>> [] c = 13 -> <<BS, 114>> [] c = 0 -> <<BS, 48>> [] c = BS -> <<BS, BS>> [] OTHER -> <<>>
Uni(c) == <<BS, 117, 123>> \o Hex(c) \o <<125>>
\* one character inside a text literal under an encoding style
EncChar(c, enc, quote) ==
  CASE enc = "uni" -> Uni(c)
    [] enc = "esc" -> IF EscOf(c) # <<>> THEN EscOf(c) ELSE IF c = quote THEN Uni(c) ELSE <<c>>
    [] OTHER -> IF c \in {BS, 13, 0} THEN EscOf(c) ELSE IF c = quote THEN Uni(c) ELSE <<c>>          \* "raw": line breaks and tabs stay raw
RECURSIVE EncAll(_, _, _)
EncAll(cs, enc, quote) == IF cs = <<>> THEN <<>> ELSE EncChar(cs[1], enc, quote) \o EncAll(Tail(cs), enc, quote)
Quotes(q, n) == [i \in 1..n |-> q]
SpellText(cs, enc, nq) == Quotes(DQ, nq) \o EncAll(cs, enc, DQ) \o Quotes(DQ, nq)
\* what the spelling denotes: raw line breaks and tabs are skipped inside a single-quoted char list
TextValue(cs, enc, nq) == IF enc = "raw" /\ nq = 1 THEN SelectSeq(cs, LAMBDA c : c \notin {10, 9}) ELSE cs
SpellBytesChars(bs, enc) == <<SQ>> \o EncAll(bs, IF enc = "uni" THEN "esc" ELSE enc, SQ) \o <<SQ>>
RECURSIVE JoinNums(_, _)
JoinNums(bs, R) == IF bs = <<>> THEN <<>> ELSE (IF R = 10 THEN Dec(bs[1]) ELSE SpellRadix(bs[1], R, 0)) \o (IF Len(bs) > 1 THEN <<32>> ELSE <<>>) \o JoinNums(Tail(bs), R)
SpellBytesNums(bs, R) == Quotes(SQ, 3) \o JoinNums(bs, R) \o Quotes(SQ, 3)
SpellSymbol(name) == <<58>> \o name
==============================================================================
