-------------------------------- MODULE Lexer --------------------------------
(* Implementation-shaped model of the lexer (compiler/src/lex/lexer.rs: Lexer::process_char, start_token,
   internal_next and lex), a character-driven state machine written as a deterministic step function over a state
   record whose fields are the code's fields:
     st (LexingState), cur (current_characters), ty (current_token_type), row/col (text_row/text_column),
     tsr/tsc (token_start_row/column), create (should_create), canFloat, sq/eq (start/end quote counts),
     cbs (could_be_sub_expression), res (the `result` error slot), atEnd.
   The environment (the next character) is the only nondeterminism: Grow appends any character of ALPHABET up to N, then
   Run replays Lexer::next()/lex() over the input exactly as the code does, INCLUDING the code's treatment of its error
   slot (consulted only between next() calls).  At the end one REPLAY line carries the input and the predicted outcome
   (tokens with text, type, row, column, or an error) for comparison with the real lex().
   Characters are symbolic names; CodeOf maps each to the code point the harness uses (single source of truth). *)
EXTENDS TokenTable, Json
CONSTANTS N, ALPHABET

S0 == [ st |-> "NoToken", cur |-> <<>>, ty |-> "None", row |-> 0, col |-> 0, tsr |-> 0, tsc |-> 0,
        create |-> TRUE, canFloat |-> TRUE, sq |-> 0, eq |-> 0, cbs |-> FALSE, res |-> "ok", atEnd |-> FALSE,
        tok |-> <<>> ]      \* tok: the token(s) returned by this process_char call (0 or 1)

Tok(text, ty, r, c) == [ text |-> text, ty |-> ty, row |-> r, col |-> c ]

\* ---- start_token
StartToken(s, c) ==
  LET b == [s EXCEPT !.cur = <<c>>, !.ty = "None", !.tsr = s.row, !.tsc = s.col] IN
  IF IsNode(<<c>>) THEN [b EXCEPT !.st = "Operator", !.ty = TypeOf(<<c>>)]
  ELSE IF c \in {"SP","TAB","CR"} THEN [b EXCEPT !.st = "Spaces", !.ty = "Whitespace"]
  ELSE IF AsciiWs(c) THEN [b EXCEPT !.st = "Subexpression", !.ty = "Subexpression", !.col = 0, !.row = s.row + 1]
  ELSE IF Numeric(c) THEN [b EXCEPT !.st = "Number", !.ty = "Number"]
  ELSE IF IdentChar(c) THEN [b EXCEPT !.st = "Identifier", !.ty = "Identifier"]
  ELSE IF c = "BT" THEN [b EXCEPT !.st = "Identifier", !.ty = "SuffixIdentifier"]
  ELSE IF c = "@" THEN [b EXCEPT !.st = "Annotation", !.ty = "Annotation"]
  ELSE IF c = "DQ" THEN [b EXCEPT !.st = "StartCharList", !.ty = "CharList"]
  ELSE IF c = "SQ" THEN [b EXCEPT !.st = "StartByteList", !.ty = "ByteList"]
  ELSE IF c = "NUL" /\ s.atEnd THEN [b EXCEPT !.st = "NoToken", !.ty = "None", !.cur = <<>>]
  ELSE [b EXCEPT !.res = "err"]        \* note: state/cur keep the values set above (state unchanged)

IsIdent(cs) == \A i \in 1..Len(cs) : IdentChar(cs[i])

RECURSIVE TrimDots(_)
TrimDots(cs) == IF cs # <<>> /\ Last(cs) = "." THEN TrimDots(SubSeq(cs, 1, Len(cs)-1))
                ELSE IF cs # <<>> /\ cs[1] = "." THEN TrimDots(SubSeq(cs, 2, Len(cs))) ELSE cs

\* Result of the big match: a record [s, startNew, early] ; early = TRUE means "return None/next_token now"
R(s, startNew) == [s |-> s, startNew |-> startNew, early |-> FALSE]
Early(s) == [s |-> s, startNew |-> FALSE, early |-> TRUE]
Push(s, c) == [s EXCEPT !.cur = Append(s.cur, c)]
\* a character taken into a char list / byte list literal: a line break moves to the next line (count_line_break_in_literal)
PushLit(s, c) == IF c = "NL" THEN [s EXCEPT !.cur = Append(s.cur, c), !.col = 0, !.row = s.row + 1] ELSE Push(s, c)

Arm(s, c) ==
  CASE s.st = "NoToken" -> R(StartToken(s, c), FALSE)
    [] s.st = "Operator" ->
         LET p == Append(s.cur, c) IN
         IF IsNode(p) THEN R([s EXCEPT !.cur = p, !.ty = TypeOf(p)], FALSE)
         ELSE IF p[1] = "_" /\ IsIdent(p) THEN R([s EXCEPT !.cur = p, !.ty = "Identifier", !.st = "Identifier"], FALSE)
         ELSE IF p[1] = "." /\ Len(p) = 2 /\ Numeric(c) /\ s.canFloat THEN R([s EXCEPT !.cur = p, !.ty = "Number", !.st = "Float"], FALSE)
         ELSE R(s, TRUE)
    [] s.st = "Number" ->
         IF Numeric(c) \/ c = "_" \/ Alnum(c) THEN R(Push(s, c), FALSE)
         ELSE IF c = "." /\ s.canFloat THEN R([Push(s, c) EXCEPT !.ty = "Number", !.st = "Float"], FALSE)
         ELSE R(s, TRUE)
    [] s.st = "Float" ->
         IF Numeric(c) \/ c = "_" \/ Alnum(c) THEN R(Push(s, c), FALSE)
         ELSE IF c = "." /\ Last(s.cur) = "." THEN
              LET t == Tok(TrimDots(s.cur), "Number", s.tsr, s.tsc)
                  s1 == [s EXCEPT !.tok = <<t>>, !.tsr = s.row]
                  correct == s.col - 1
                  s2 == StartToken(s1, ".")
                  s3 == [s2 EXCEPT !.tsc = correct, !.cur = Append(s2.cur, c)]
              IN IF IsNode(s3.cur) THEN R([s3 EXCEPT !.ty = TypeOf(s3.cur)], FALSE)
                 ELSE Early([s3 EXCEPT !.res = "err", !.tok = <<>>])
         ELSE R(s, TRUE)
    [] s.st = "Identifier" ->
         IF IdentChar(c) THEN R(Push(s, c), FALSE)
         ELSE IF c = "BT" THEN R([Push(s, c) EXCEPT !.create = FALSE,
                                   !.ty = IF s.ty = "SuffixIdentifier" THEN "InfixIdentifier" ELSE "PrefixIdentifier"], TRUE)
         ELSE R(IF s.cur[1] = ":" /\ ~(Len(s.cur) >= 2 /\ s.cur[2] = ":") THEN [s EXCEPT !.ty = "Symbol"] ELSE s, TRUE)
    [] s.st = "StartCharList" ->
         IF c # "DQ" THEN
            IF Len(s.cur) = 2 THEN R(s, TRUE)
            ELSE R([ (IF c # "NUL" THEN PushLit(s, c) ELSE s) EXCEPT !.sq = Len(s.cur), !.st = "CharList"], FALSE)
         ELSE R(Push(s, c), FALSE)
    [] s.st = "CharList" ->
         IF c = "DQ" THEN
            LET s1 == [Push(s, c) EXCEPT !.eq = s.eq + 1] IN
            IF s1.sq = s1.eq THEN R([s1 EXCEPT !.create = FALSE], TRUE) ELSE R(s1, FALSE)
         ELSE R([PushLit(s, c) EXCEPT !.eq = 0], FALSE)
    [] s.st = "StartByteList" ->
         IF c # "SQ" THEN
            IF Len(s.cur) = 2 THEN R(s, TRUE)                   \* the empty byte list; c starts its own token
            ELSE R([ (IF c # "NUL" THEN PushLit(s, c) ELSE s) EXCEPT !.sq = Len(s.cur), !.st = "ByteList"], FALSE)
         ELSE R(Push(s, c), FALSE)
    [] s.st = "ByteList" ->
         IF c = "SQ" THEN
            LET s1 == [Push(s, c) EXCEPT !.eq = s.eq + 1] IN
            IF s1.sq = s1.eq THEN R([s1 EXCEPT !.create = FALSE], TRUE) ELSE R(s1, FALSE)
         ELSE R([PushLit(s, c) EXCEPT !.eq = 0], FALSE)
    [] s.st = "Spaces" ->
         IF c = "NL" THEN
            LET s1 == [s EXCEPT !.col = 0, !.row = s.row + 1] IN
            IF s.cbs THEN R([Push(s1, c) EXCEPT !.ty = "Subexpression", !.create = FALSE], TRUE)
            ELSE R([Push(s1, c) EXCEPT !.st = "Subexpression"], FALSE)
         ELSE IF c # "SP" /\ c # "TAB" THEN R(s, TRUE)
         ELSE R(Push(s, c), FALSE)
    [] s.st = "Subexpression" ->
         IF AsciiWs(c) /\ ~(c = "TAB" \/ c = "SP") THEN
            LET p == Append(s.cur, c)
                s1 == IF Len(p) > 2 THEN [s EXCEPT !.cur = p, !.ty = "Subexpression"]     \* trailing blanks stay in the separator token
                                    ELSE [s EXCEPT !.cur = p]
            IN R([s1 EXCEPT !.col = 0, !.row = s.row + 1, !.create = FALSE], TRUE)
         ELSE LET s1 == [s EXCEPT !.ty = "Whitespace", !.cbs = TRUE] IN
              IF c = "TAB" \/ c = "SP" THEN R([Push(s1, c) EXCEPT !.st = "Spaces"], FALSE) ELSE R(s1, TRUE)
    [] s.st = "Annotation" ->
         IF c = "@" /\ Len(s.cur) = 1 THEN R([Push(s, c) EXCEPT !.st = "LineAnnotation", !.ty = "LineAnnotation"], FALSE)
         ELSE IF Alnum(c) \/ c = "_" THEN R(Push(s, c), FALSE)
         ELSE R(s, TRUE)
    [] s.st = "LineAnnotation" ->
         IF c = "NL" THEN R([Push(s, c) EXCEPT !.create = FALSE, !.col = 0, !.row = s.row + 1], TRUE)
         ELSE IF c = "NUL" THEN R(s, TRUE)
         ELSE R(Push(s, c), FALSE)

NoFloatAfter == {"Value","CharList","ByteList","Identifier","Period","Number"}

\* process_char: returns the new state; s.tok holds the token returned by this call (if any)
ProcessChar(s0, c) ==
  LET s == [s0 EXCEPT !.tok = <<>>]
      a == Arm(s, c)
  IN IF a.early THEN a.s                       \* "return None" before the column update
     ELSE
       LET s1 == a.s IN
       LET afterNew ==
            IF ~a.startNew THEN [early |-> FALSE, s |-> s1]
            ELSE
              LET s2 == [s1 EXCEPT !.canFloat = ~(s1.ty \in NoFloatAfter)] IN
              \* token creation
              LET created ==
                    IF s2.st # "NoToken" THEN
                       LET okTok == ~(s2.ty = "Identifier" /\ (s2.cur = <<"_">> \/ s2.cur = <<":">>)) IN
                       IF okTok THEN
                          IF s2.ty = "None" THEN [early |-> TRUE, s |-> [s2 EXCEPT !.res = "err"]]      \* "No token": return None immediately
                          ELSE [early |-> FALSE, s |-> [s2 EXCEPT !.res = "ok", !.tok = <<Tok(s2.cur, s2.ty, s2.tsr, s2.tsc)>>]]
                       ELSE [early |-> FALSE, s |-> [s2 EXCEPT !.res = "err"]]
                    ELSE [early |-> FALSE, s |-> s2]
              IN IF created.early THEN created
                 ELSE LET s3 == [created.s EXCEPT !.st = "NoToken", !.cur = <<>>, !.ty = "None", !.sq = 0, !.eq = 0, !.cbs = FALSE] IN
                      IF s3.create THEN [early |-> FALSE, s |-> StartToken(s3, c)]
                      ELSE [early |-> FALSE, s |-> [s3 EXCEPT !.create = TRUE]]
       IN IF afterNew.early THEN afterNew.s
          ELSE IF c # "NL" THEN [afterNew.s EXCEPT !.col = afterNew.s.col + 1] ELSE afterNew.s

\* ---- the iterator + lex(): drive over an input, collecting tokens the way lex() does
VARIABLES input, pos, ls, toks, phase     \* phase: "run" | "ok" | "err"
vars == <<input, pos, ls, toks, phase>>

Init == input = <<>> /\ pos = 0 /\ ls = S0 /\ toks = <<>> /\ phase = "grow"

Grow == phase = "grow" /\ Len(input) < N /\ \E c \in ALPHABET : input' = Append(input, c) /\ UNCHANGED <<pos, ls, toks, phase>>
StartRun == phase = "grow" /\ phase' = "run" /\ UNCHANGED <<input, pos, ls, toks>>

\* one call of Lexer::next() followed by lex()'s check of lexer.result
\* inside the loop of internal_next the error slot is consulted after every character that yields no token
RECURSIVE NextCall_NoErrCheck(_, _)
NextCall_NoErrCheck(s, p) ==
  IF p < Len(input) THEN
        LET s1 == ProcessChar(s, input[p+1]) IN
        IF s1.tok # <<>> THEN [s |-> s1, p |-> p+1, tok |-> s1.tok, ended |-> FALSE]
        ELSE IF s1.res = "err" THEN [s |-> s1, p |-> p+1, tok |-> <<>>, ended |-> TRUE]      \* a recorded error stops the iteration
        ELSE NextCall_NoErrCheck(s1, p+1)
  ELSE
        LET sE == [s EXCEPT !.atEnd = TRUE]
            s1 == ProcessChar(sE, "NUL") IN
        IF s1.tok # <<>> THEN [s |-> s1, p |-> p, tok |-> s1.tok, ended |-> FALSE]
        ELSE LET s2 == IF Len(s1.cur) > 0 /\ s1.res = "ok" THEN [s1 EXCEPT !.res = "err"] ELSE s1 IN
             [s |-> s2, p |-> p, tok |-> <<>>, ended |-> TRUE]

Run ==
  /\ phase = "run"
  /\ LET r == IF ls.res = "err" THEN [s |-> ls, p |-> pos, tok |-> <<>>, ended |-> TRUE] ELSE NextCall_NoErrCheck(ls, pos) IN
     /\ ls' = r.s /\ pos' = r.p
     /\ IF r.tok # <<>> THEN
            IF r.s.res = "ok" THEN toks' = toks \o r.tok /\ phase' = "run"
            ELSE toks' = toks /\ phase' = "err"
        ELSE toks' = toks /\ phase' = (IF r.s.res = "ok" THEN "ok" ELSE "err")
  /\ UNCHANGED input

Next == Grow \/ StartRun \/ Run
Spec == Init /\ [][Next]_vars

Done == phase \in {"ok","err"}
WireTok(t) == [text |-> Codes(t.text), ty |-> t.ty, row |-> t.row, col |-> t.col]
Emit == Done => PrintT(<<"REPLAY", ToJson([input |-> Codes(input), res |-> phase, toks |-> IF phase = "ok" THEN [i \in DOMAIN toks |-> WireTok(toks[i])] ELSE <<>>])>>)

\* ---- design-level property of the model itself, evaluated in mode G (the model reproduces the code's defects, so TLC
\* REFUTES Lossless on it; the counterexamples are inputs to replay, DESIGN.md 3.3)
Flat(ts) == FoldLeft(LAMBDA acc, t : acc \o t.text, <<>>, ts)
Lossless == phase = "ok" => Flat(toks) = input
NoEmpty == phase = "ok" => \A i \in DOMAIN toks : toks[i].text # <<>>
==============================================================================
