SPECIFICATION Spec
CONSTANT MaxOps = 5
CONSTANT MaxCells = 9
INVARIANT Preserved
INVARIANT Emit
CHECK_DEADLOCK FALSE
