SPECIFICATION Spec
CONSTANT MaxOps = 4
CONSTANT MaxCells = 9
INVARIANT Preserved
INVARIANT Emit
CHECK_DEADLOCK FALSE
