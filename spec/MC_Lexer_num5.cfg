SPECIFICATION Spec
CONSTANTS N = 5
  ALPHABET = {"1", "E2", ".", "a", "<", "_"}
INVARIANT Emit
CHECK_DEADLOCK FALSE
