-------------------------------- MODULE V_C08 --------------------------------
(* Mode V for C08: for every observed (instruction, operands, callback mode) on each store: if the language defines no
   result for the operand types, the step succeeds, the host's defer callback was invoked EXACTLY once with the operation
   and both operands in source order, exactly one result is left above the sentinel (unit if the host is absent or
   declines, the host's value unchanged if it accepts), and execution continues at the next instruction.  For defined
   combinations the callback is not invoked. *)
EXTENDS Defer, Json, IOUtils, KnownFindings
Obs == ndJsonDeserialize(IOEnv.OBS)
VARIABLE c
Init == c \in DOMAIN Obs
Next == UNCHANGED c
Spec == Init /\ [][Next]_c
Sentinel == MkInt(7777)
HostValue == MkInt(4242)
Defers(log) == SelectSeq(log, LAMBDA e : e.cb = "defer")
RunFails(o, run) ==
  LET r == IF o.unary THEN U ELSE o.r
      def == Defined(o.ins, o.l, r)
      F(why) == <<[store |-> run.store, why |-> why, defined |-> def, status |-> run.status,
                   msg |-> IF "msg" \in DOMAIN run THEN run.msg ELSE "", kf |-> KF_C08(o, run, why)]>> IN
  IF run.status = "na" THEN <<>>                \* this store has no working-copy operation (via = "clone" on BasicGarnishData)
  ELSE IF run.status = "setuperr" THEN <<>>          \* the operand itself cannot be built on this store (a symbol list with a number on Simple)
  ELSE IF run.status = "panic" THEN F("panic")
  ELSE IF def THEN (IF run.status = "ok" /\ Defers(run.log) # <<>> THEN F("defined combination offered to the host")
                    \* a path access (list applied to a symbol list) is a walk of single accesses; a step of the walk that meets an operand
                    \* combination without a result (a number accessed with an index, unit accessed with a key) ends it with unit
                    ELSE IF o.ins = "Apply" /\ Ty(o.l) = "List" /\ Ty(r) = "SymbolList" /\ run.status = "err" THEN F("a step of a path access failed")
                    ELSE <<>>)
  ELSE IF run.status # "ok" THEN F("execution failed")
  ELSE LET d == Defers(run.log)
           expect == IF o.mode = "accept" THEN HostValue ELSE U IN
       IF o.mode = "absent" /\ d # <<>> THEN F("callback logged although absent")
       ELSE IF o.mode # "absent" /\ Len(d) # 1 THEN F(IF d = <<>> THEN "callback not invoked" ELSE "callback invoked more than once")
       ELSE IF o.mode # "absent" /\ ~(d[1].op = o.ins /\ d[1].lt = Ty(o.l) /\ SameVal(o.l, d[1].l)
                                     /\ (o.unary \/ ((d[1].rt = Ty(r) \/ (o.ins = "ApplyType" /\ d[1].rt = CastTarget(r)))     \* a cast reports the TARGET type for a type value
                                                   /\ SameVal(r, d[1].r)))) THEN F("callback arguments")
       ELSE IF Len(run.regs) # 2 THEN F("not exactly one result left")
       ELSE IF ~SameVal(Sentinel, run.regs[1]) THEN F("operand below was disturbed")
       ELSE IF ~SameVal(expect, run.regs[2]) THEN F(IF o.mode = "accept" THEN "host result not used unchanged" ELSE "result is not unit")
       ELSE IF run.next # run.at + 1 THEN F("execution does not continue at the next instruction")
       ELSE <<>>
Fails(o) == LET RECURSIVE Cat(_)
                Cat(i) == IF i > Len(o.runs) THEN <<>> ELSE RunFails(o, o.runs[i]) \o Cat(i + 1) IN Cat(1)
Report == Fails(Obs[c]) = <<>> \/ PrintT(<<"FAIL", ToJson([c |-> c, ins |-> Obs[c].ins, l |-> Obs[c].l, r |-> IF Obs[c].unary THEN U ELSE Obs[c].r,
                                                         mode |-> Obs[c].mode, via |-> IF "via" \in DOMAIN Obs[c] THEN Obs[c].via ELSE "direct", fails |-> Fails(Obs[c])])>>)
\* vacuity guard: how many observations lie in the undefined part
Stat == Defined(Obs[c].ins, Obs[c].l, IF Obs[c].unary THEN U ELSE Obs[c].r) \/ PrintT(<<"STAT", ToJson([c |-> c, undefined |-> TRUE])>>)
==============================================================================
