--------------------------- MODULE KnownFindingsLex ---------------------------
(* Known-finding signatures for the lexer (see KnownFindings.tla for the convention). *)
EXTENDS Integers, Sequences
KF_C13(o, why) == "NEW"
KF_C14(o, r, why) == "NEW"
KF_C02(o) == "NEW"
(* C04-structural-nodes-own-no-instruction: read literally, "every value and operator node is attributed at least one
   emitted instruction" fails for two kinds of node that emit nothing by construction although nothing is ignored: an
   ElseJump node (its effect is the jump wiring; the joining JumpTo carries no metadata) and a List / CommaList node
   flattened into a parent of the same kind (`1 1 1`: one MakeList 3 owned by the outer node).
   C04-side-effect-blocks: the parser splices a side-effect block next to its neighbour and re-parents it afterwards;
   for blocks in several positions (`( [ ] )`, after a suffix operator, before a value) the result has a parent that does
   not list the block as child, and the block or its neighbour owns no instruction.  Matcher: a tree / attribution
   failure of a program that contains a SideEffect node. *)
\* the positions in which the unchanged tree mishandles a side-effect block S: directly after / inside another block
\* (its parent is a SideEffect node), as the only content of a group or nested expression that then does not list it,
\* or directly after a suffix operator
HasSideEffect(o) == \E i \in DOMAIN o.nodes :
   LET n == o.nodes[i] IN
   /\ n.d = "SideEffect"
   /\ \/ (n.p >= 0 /\ n.p < Len(o.nodes) /\ o.nodes[n.p + 1].d = "SideEffect")
      \/ (n.p >= 0 /\ n.p < Len(o.nodes) /\ o.nodes[n.p + 1].d \in {"Group", "NestedExpression"} /\ o.nodes[n.p + 1].l # i - 1 /\ o.nodes[n.p + 1].r # i - 1)
      \/ (n.l >= 0 /\ n.l < Len(o.nodes) /\ o.nodes[n.l + 1].sec = "UnarySuffix")
Structural(o, i) == LET n == o.nodes[i + 1] IN
                    n.d = "ElseJump" \/ (n.d \in {"List", "CommaList"} /\ n.p >= 0 /\ n.p < Len(o.nodes) /\ o.nodes[n.p + 1].d = n.d)
KF_C04Attr(o, missing) == IF \A i \in missing : Structural(o, i) THEN "C04-structural-nodes-own-no-instruction"
                          ELSE IF HasSideEffect(o) THEN "C04-side-effect-blocks" ELSE "NEW"
(* C05-empty-brackets-build-nothing: an empty group or an expression body that is an empty group (`( )`, `{ ( ) }`) emits no
   instruction, so the jump-table entry pushed for it (the program entry / the expression body) equals the instruction
   count at that moment and points past the end of the stream. *)
EmptyGroup(o) == \E i \in DOMAIN o.nodes : o.nodes[i].d = "Group" /\ o.nodes[i].r < 0
KF_C05(o, why) == IF EmptyGroup(o) THEN "C05-empty-brackets-build-nothing" ELSE "NEW"
KF_Compile(o) == IF "nodes" \in DOMAIN o /\ HasSideEffect(o) THEN "C04-side-effect-blocks" ELSE "NEW"
==============================================================================
