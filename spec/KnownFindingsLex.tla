--------------------------- MODULE KnownFindingsLex ---------------------------
(* Known-finding signatures for the lexer (see KnownFindings.tla for the convention). *)
EXTENDS Integers, Sequences
KF_C13(o, why) == "NEW"
KF_C14(o, r, why) == "NEW"
KF_C02(o) == "NEW"
(* C04-structural-nodes-own-no-instruction: read literally, "every value and operator node is attributed at least one
   emitted instruction" fails for two kinds of node that emit nothing by construction although nothing is ignored: an
   ElseJump node (its effect is the jump wiring; the joining JumpTo carries no metadata) and a List / CommaList node
   flattened into a parent of the same kind (`1 1 1`: one MakeList 3 owned by the outer node).
   C04-side-effect-blocks: the parser splices a side-effect block next to its neighbour and re-parents it afterwards;
   for blocks in several positions (`( [ ] )`, after a suffix operator, before a value) the result has a parent that does
   not list the block as child, and the block or its neighbour owns no instruction.  Matcher: a tree / attribution
   failure of a program that contains a SideEffect node. *)
\* The parser supports a side-effect block only between plain values / binary operators (its own tests: side_effects::*).
\* The signature of the finding is a SideEffect node whose own links are inconsistent in one of the four ways below; a
\* program whose side-effect blocks are all linked consistently never matches, whatever else is wrong with it.
RECURSIVE UnderSE(_, _, _)
UnderSE(o, j, fuel) == fuel > 0 /\ j >= 0 /\ j < Len(o.nodes) /\ (o.nodes[j + 1].d = "SideEffect" \/ UnderSE(o, o.nodes[j + 1].p, fuel - 1))
\* a prefix operator or opening bracket after a closed block is hung below the last operator INSIDE the block (stale next_parent)
HungIntoBlock(o) == \E j \in DOMAIN o.nodes :
   LET n == o.nodes[j] IN
   /\ n.sec \in {"UnaryPrefix", "StartGrouping"}
   /\ n.p >= 0 /\ n.p < Len(o.nodes)
   /\ o.nodes[n.p + 1].l # j - 1 /\ o.nodes[n.p + 1].r # j - 1
   /\ UnderSE(o, n.p, Len(o.nodes))
HasSideEffect(o) == HungIntoBlock(o) \/ \E i \in DOMAIN o.nodes :
   LET n == o.nodes[i]
       In(k) == k >= 0 /\ k < Len(o.nodes) IN
   /\ n.d = "SideEffect"
   /\ \/ (In(n.p) /\ o.nodes[n.p + 1].d = "SideEffect")                                             \* a block directly inside a block
      \/ (In(n.p) /\ o.nodes[n.p + 1].l # i - 1 /\ o.nodes[n.p + 1].r # i - 1)                         \* the block's parent does not list it
      \/ n.l >= 0                                                                                   \* the block took a left operand (after a closed bracket / suffix operator)
      \/ (\E j \in DOMAIN o.nodes : o.nodes[j].p = i - 1 /\ n.l # j - 1 /\ n.r # j - 1)               \* a node names the block as parent, the block does not list it
Structural(o, i) == LET n == o.nodes[i + 1] IN
                    n.d = "ElseJump" \/ (n.d \in {"List", "CommaList"} /\ n.p >= 0 /\ n.p < Len(o.nodes) /\ o.nodes[n.p + 1].d = n.d)
KF_C04Attr(o, missing) == IF \A i \in missing : Structural(o, i) THEN "C04-structural-nodes-own-no-instruction"
                          ELSE IF HasSideEffect(o) THEN "C04-side-effect-blocks" ELSE "NEW"
(* C05-empty-brackets-build-nothing: an empty group or an expression body that is an empty group (`( )`, `{ ( ) }`) emits no
   instruction, so the jump-table entry pushed for it (the program entry / the expression body) equals the instruction
   count at that moment and points past the end of the stream. *)
EmptyGroup(o) == \E i \in DOMAIN o.nodes : o.nodes[i].d = "Group" /\ o.nodes[i].r < 0
KF_C05(o, why) == IF EmptyGroup(o) THEN "C05-empty-brackets-build-nothing" ELSE "NEW"
KF_Compile(o) == IF "nodes" \in DOMAIN o /\ HasSideEffect(o) THEN "C04-side-effect-blocks" ELSE "NEW"
==============================================================================
