--------------------------- MODULE KnownFindingsLex ---------------------------
(* Known-finding signatures for the lexer (see KnownFindings.tla for the convention). *)
EXTENDS Integers, Sequences
KF_C13(o, why) == "NEW"
KF_C14(o, r, why) == "NEW"
KF_C02(o) == "NEW"
KF_C04Attr(o, missing) == "NEW"
KF_Compile(o) == "NEW"
==============================================================================
