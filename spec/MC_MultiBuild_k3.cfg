SPECIFICATION Spec
CONSTANTS K = 3
  MAXX = 2
INVARIANT SegmentsStayApart
INVARIANT Emit
PROPERTY EarlierUntouched
CHECK_DEADLOCK FALSE
