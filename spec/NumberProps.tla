---------------------------- MODULE NumberProps ----------------------------
(* Property layer of C09 on number DESCRIPTORS (the wire vocabulary of harness/src/val.rs):
     [t |-> "int", v |-> i32]
     [t |-> "float", s |-> text, k |-> "zero"|"nzero"|"fin"|"nan"|"inf"|"ninf", x |-> floor(log2|f|) (k = fin),
      sg |-> -1|0|1 sign (0 for zeros and NaN),  m, e |-> exact dyadic form f = m * 2^e with m odd, present when |m| < 2^31]
   Expect(op, a, b) says what the statement of C09 allows as the result:
     [k |-> "unit"]                    the unit value
     [k |-> "int", v |-> n]            exactly this integer
     [k |-> "dy", m |-> m, e |-> e]    exactly the float m * 2^e (m = 0: a zero of either sign)
     [k |-> "float"]                   some finite float (value not pinned: binary64 rounding is outside TLA+)
     [k |-> "floatOrUnit"]             a finite float, or unit if the true result is not finite
   In every case a NaN or infinite result, a panic or an error is excluded (the statement: "never wraps,
   traps or yields a different number"; non-finite results are unit). *)
EXTENDS Integers, Sequences, TLC
N32 == INSTANCE Number WITH W <- 32
None == <<>>
Some(x) == <<x>>

IsInt(d) == d.t = "int"
IsFloat(d) == d.t = "float"
IsZero(d) == IF IsInt(d) THEN d.v = 0 ELSE d.k \in {"zero", "nzero"}
Finite(d) == IsInt(d) \/ d.k \in {"zero", "nzero", "fin"}
Negative(d) == IF IsInt(d) THEN d.v < 0 ELSE d.sg = -1   \* strictly below zero
Abs(x) == IF x < 0 THEN -x ELSE x

\* floor(log2 |v|) of a non-zero integer
RECURSIVE Log2(_)
Log2(n) == IF n <= 1 THEN 0 ELSE 1 + Log2(n \div 2)
Xof(d) == IF IsInt(d) THEN (IF d.v = N32!MINW THEN 31 ELSE Log2(Abs(d.v))) ELSE d.x

\* ---- exact dyadic arithmetic on small operands
RECURSIVE Norm(_, _)
Norm(m, e) == IF m = 0 THEN <<0, 0>> ELSE IF m % 2 = 0 THEN Norm(m \div 2, e + 1) ELSE <<m, e>>
HasDy(d) == IsInt(d) \/ d.k \in {"zero", "nzero"} \/ (d.k = "fin" /\ "m" \in DOMAIN d)
Dy(d) == IF IsInt(d) THEN Norm(d.v, 0) ELSE IF d.k \in {"zero", "nzero"} THEN <<0, 0>> ELSE <<d.m, d.e>>
SMALL == 8192           \* |mantissa| bound under which every intermediate below stays inside TLC's integers
SHIFT == 13
Min(x, y) == IF x < y THEN x ELSE y
Max(x, y) == IF x > y THEN x ELSE y
\* both operands brought to the common exponent e0 as integers A, B; <<>> if that would leave the safe range
Aligned(p, q) ==
  LET e0 == Min(p[2], q[2])  s1 == p[2] - e0  s2 == q[2] - e0 IN
  IF p[1] = 0 THEN Some(<<0, q[1], q[2]>>) ELSE IF q[1] = 0 THEN Some(<<p[1], 0, p[2]>>)
  ELSE IF Abs(p[1]) < SMALL /\ Abs(q[1]) < SMALL /\ s1 <= SHIFT /\ s2 <= SHIFT
       THEN Some(<<p[1] * N32!Pow2(s1), q[1] * N32!Pow2(s2), e0>>) ELSE None
InRange(me) == me[1] = 0 \/ (me[2] >= -1074 /\ me[2] + Log2(Abs(me[1])) <= 1023)
DyRes(m, e) == LET n == Norm(m, e) IN IF InRange(n) THEN [k |-> "dy", m |-> n[1], e |-> n[2]] ELSE [k |-> "floatOrUnit"]

BitOps == {"BitwiseAnd", "BitwiseOr", "BitwiseXor", "BitwiseShiftLeft", "BitwiseShiftRight", "BitwiseNot"}
Unit == [k |-> "unit"]
OfOpt(o) == IF o = None THEN Unit ELSE [k |-> "int", v |-> o[1]]

ExpectFloat(op, a, b) ==     \* at least one float operand (b is ignored for unary operations)
  IF op \in BitOps THEN Unit
  ELSE IF op \in {"Divide", "IntegerDivide", "Remainder"} /\ IsZero(b) THEN Unit
  ELSE IF op = "Power" /\ Negative(b) THEN Unit
  ELSE IF ~Finite(a) \/ (op \notin {"Opposite", "AbsoluteValue", "Increment", "Decrement"} /\ ~Finite(b)) THEN [k |-> "floatOrUnit"]
  ELSE IF op = "Opposite" THEN (IF HasDy(a) THEN DyRes(-Dy(a)[1], Dy(a)[2]) ELSE [k |-> "float"])
  ELSE IF op = "AbsoluteValue" THEN (IF HasDy(a) THEN DyRes(Abs(Dy(a)[1]), Dy(a)[2]) ELSE [k |-> "float"])
  ELSE IF op \in {"Increment", "Decrement"} THEN
       LET al == IF HasDy(a) THEN Aligned(Dy(a), <<IF op = "Increment" THEN 1 ELSE -1, 0>>) ELSE None IN
       IF al # None THEN DyRes(al[1][1] + al[1][2], al[1][3]) ELSE [k |-> "floatOrUnit"]
  ELSE LET al == IF HasDy(a) /\ HasDy(b) THEN Aligned(Dy(a), Dy(b)) ELSE None
           xa == IF IsZero(a) THEN -2000 ELSE Xof(a)   xb == IF IsZero(b) THEN -2000 ELSE Xof(b) IN
       CASE op = "Add" -> IF al # None THEN DyRes(al[1][1] + al[1][2], al[1][3]) ELSE IF Max(xa, xb) <= 1022 THEN [k |-> "float"] ELSE [k |-> "floatOrUnit"]
         [] op = "Subtract" -> IF al # None THEN DyRes(al[1][1] - al[1][2], al[1][3]) ELSE IF Max(xa, xb) <= 1022 THEN [k |-> "float"] ELSE [k |-> "floatOrUnit"]
         [] op = "Multiply" ->
              IF HasDy(a) /\ HasDy(b) /\ Abs(Dy(a)[1]) < SMALL /\ Abs(Dy(b)[1]) < SMALL THEN DyRes(Dy(a)[1] * Dy(b)[1], Dy(a)[2] + Dy(b)[2])
              ELSE IF IsZero(a) \/ IsZero(b) THEN [k |-> "float"]
              ELSE IF xa + xb >= 1024 THEN Unit ELSE IF xa + xb <= 1021 THEN [k |-> "float"] ELSE [k |-> "floatOrUnit"]
         [] op = "Divide" ->
              IF HasDy(a) /\ HasDy(b) /\ Abs(Dy(a)[1]) < SMALL * SMALL /\ Abs(Dy(b)[1]) < SMALL /\ Abs(Dy(a)[1]) % Abs(Dy(b)[1]) = 0
                 THEN DyRes(N32!TDiv(Dy(a)[1], Dy(b)[1]), Dy(a)[2] - Dy(b)[2])
              ELSE IF IsZero(a) THEN [k |-> "float"]
              ELSE IF xa - xb >= 1025 THEN Unit ELSE IF xa - xb <= 1022 THEN [k |-> "float"] ELSE [k |-> "floatOrUnit"]
         [] op = "Remainder" -> IF al # None THEN DyRes(al[1][1] - al[1][2] * N32!TDiv(al[1][1], al[1][2]), al[1][3]) ELSE [k |-> "float"]
         [] op = "IntegerDivide" -> IF al # None THEN [k |-> "int", v |-> N32!TDiv(al[1][1], al[1][2])]
                                    ELSE IF IsZero(a) THEN [k |-> "int", v |-> 0]
                                    ELSE IF xa - xb >= 32 THEN Unit          \* |quotient| >= 2^31: not representable
                                    ELSE IF xa - xb <= 29 THEN [k |-> "anyInt"] ELSE [k |-> "intOrUnit"]
         [] op = "Power" -> [k |-> "floatOrUnit"]
         [] OTHER -> [k |-> "floatOrUnit"]

Expect(op, a, b) ==
  IF op \in N32!UnaryOps THEN (IF IsInt(a) THEN OfOpt(N32!ExactOrUnitU(op, a.v)) ELSE ExpectFloat(op, a, a))
  ELSE IF IsInt(a) /\ IsInt(b) THEN OfOpt(N32!ExactOrUnit(op, a.v, b.v))
  ELSE ExpectFloat(op, a, b)

(* Does an observed result [k |-> "val", v |-> descriptor] | [k |-> "panic"|"err"|"na"] satisfy the expectation? *)
FinFloat(v) == v.t = "float" /\ v.k \in {"zero", "nzero", "fin"}
Agrees(exp, o) ==
  IF o.k = "na" THEN TRUE
  ELSE IF o.k # "val" THEN FALSE
  ELSE LET v == o.v IN
    CASE exp.k = "unit" -> v.t = "unit"
      [] exp.k = "int" -> v.t = "int" /\ v.v = exp.v
      [] exp.k = "dy" -> FinFloat(v) /\ (IF exp.m = 0 THEN v.k \in {"zero", "nzero"} ELSE v.k = "fin" /\ "m" \in DOMAIN v /\ v.m = exp.m /\ v.e = exp.e)
      [] exp.k = "float" -> FinFloat(v)
      [] exp.k = "floatOrUnit" -> FinFloat(v) \/ v.t = "unit"
      [] exp.k = "intOrUnit" -> v.t \in {"int", "unit"}
      [] exp.k = "anyInt" -> v.t = "int"
=============================================================================
