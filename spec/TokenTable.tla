------------------------------ MODULE TokenTable ------------------------------
(* The language's token table: the operator spellings with their token types - a FROZEN transcription of the list in
   Lexer::new (compiler/src/lex/lexer.rs) at the pinned commit - the character classes the lexer distinguishes, and the
   mapping between the symbolic character names used in the specification and the code points on the wire.
   It is data of the specification; a spelling or type changed in the code shows up as a disagreement. *)
EXTENDS Integers, Sequences, TLC, SequencesExt
CodeTable == { <<"a", 97>>, <<"b", 98>>, <<"1", 49>>, <<"0", 48>>, <<"_", 95>>, <<":", 58>>, <<".", 46>>, <<"+", 43>>, <<"-", 45>>, <<"<", 60>>, <<">", 62>>,
               <<"~", 126>>, <<"=", 61>>, <<"!", 33>>, <<"?", 63>>, <<"$", 36>>, <<"(", 40>>, <<")", 41>>, <<"{", 123>>, <<"}", 125>>, <<"[", 91>>, <<"]", 93>>,
               <<"*", 42>>, <<"/", 47>>, <<"%", 37>>, <<"^", 94>>, <<"#", 35>>, <<"DQ", 34>>, <<"SQ", 39>>, <<"@", 64>>, <<"BT", 96>>, <<"SP", 32>>, <<"TAB", 9>>,
               <<"NL", 10>>, <<"CR", 13>>, <<"BS", 92>>, <<"CTL", 1>>, <<"E2", 233>>, <<"EMOJI", 128512>>, <<"NBSP", 160>>, <<";", 59>>, <<",", 44>>, <<"|", 124>>, <<"&", 38>>, <<"NUL", 0>> }
CodeOf(c) == (CHOOSE p \in CodeTable : p[1] = c)[2]
NameOf(n) == (CHOOSE p \in CodeTable : p[2] = n)[1]
Codes(cs) == [i \in DOMAIN cs |-> CodeOf(cs[i])]
Names(ns) == [i \in DOMAIN ns |-> NameOf(ns[i])]

Numeric(c) == c \in {"1", "0"}
Alnum(c) == c \in {"a", "b", "1", "0", "E2"}
AsciiWs(c) == c \in {"SP","TAB","NL","CR"}
IdentChar(c) == Alnum(c) \/ c = "_" \/ c = ":"

Table == {
 <<<<"+">>,"PlusSign">>, <<<<"+","+">>,"AbsoluteValue">>, <<<<"-">>,"Subtraction">>, <<<<"-","-">>,"Opposite">>,
 <<<<"*">>,"MultiplicationSign">>, <<<<"*","*">>,"ExponentialSign">>, <<<<"/">>,"Division">>, <<<<"/","/">>,"IntegerDivision">>,
 <<<<"%">>,"Remainder">>, <<<<"!">>,"BitwiseNot">>, <<<<"&">>,"BitwiseAnd">>, <<<<"|">>,"BitwiseOr">>, <<<<"^">>,"BitwiseXor">>,
 <<<<"<","<">>,"BitwiseLeftShift">>, <<<<">",">">>,"BitwiseRightShift">>, <<<<"&","&">>,"And">>, <<<<"|","|">>,"Or">>,
 <<<<"^","^">>,"Xor">>, <<<<"!","!">>,"Not">>, <<<<"?","?">>,"Tis">>, <<<<"(",")">>,"UnitLiteral">>,
 <<<<"{">>,"StartExpression">>, <<<<"}">>,"EndExpression">>, <<<<"(">>,"StartGroup">>, <<<<")">>,"EndGroup">>,
 <<<<"[">>,"StartSideEffect">>, <<<<"]">>,"EndSideEffect">>, <<<<"$">>,"Value">>, <<<<"$","?">>,"True">>, <<<<"$","!">>,"False">>,
 <<<<",">>,"Comma">>, <<<<"!",">">>,"JumpIfFalse">>, <<<<"?",">">>,"JumpIfTrue">>, <<<<"|",">">>,"ElseJump">>,
 <<<<"<","~">>,"Apply">>, <<<<"~",">">>,"ApplyTo">>, <<<<"~">>,"PartialApply">>, <<<<"^","~">>,"Reapply">>, <<<<"~","~">>,"EmptyApply">>,
 <<<<"#">>,"TypeOf">>, <<<<"~","#">>,"TypeCast">>, <<<<"#","=">>,"TypeEqual">>, <<<<"=","=">>,"Equality">>, <<<<"!","=">>,"Inequality">>,
 <<<<"<">>,"LessThan">>, <<<<"<","=">>,"LessThanOrEqual">>, <<<<">">>,"GreaterThan">>, <<<<">","=">>,"GreaterThanOrEqual">>,
 <<<<"=">>,"Pair">>, <<<<".">>,"Period">>, <<<<".","_">>,"RightInternal">>, <<<<"_",".">>,"LeftInternal">>, <<<<".","|">>,"LengthInternal">>,
 <<<<"<",">">>,"Concatenation">>, <<<<".",".">>,"Range">>, <<<<">",".",".">>,"StartExclusiveRange">>, <<<<".",".","<">>,"EndExclusiveRange">>,
 <<<<">",".",".","<">>,"ExclusiveRange">>, <<<<";",";">>,"ExpressionTerminator">>, <<<<";">>,"ExpressionSeparator">> }

Spellings == { e[1] : e \in Table }
IsNode(cs) == \E sp \in Spellings : Len(sp) >= Len(cs) /\ SubSeq(sp, 1, Len(cs)) = cs   \* trie node exists (root for <<>>)
TypeOf(cs) == IF \E e \in Table : e[1] = cs THEN (CHOOSE e \in Table : e[1] = cs)[2] ELSE "None"

OpTypes == { e[2] : e \in Table }
CodeSpellings == { Codes(sp) : sp \in Spellings }
TypeOfCodes(cs) == IF \E e \in Table : Codes(e[1]) = cs THEN (CHOOSE e \in Table : Codes(e[1]) = cs)[2] ELSE "None"
==============================================================================
