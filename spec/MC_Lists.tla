------------------------------- MODULE MC_Lists -------------------------------
(* Mode G for C16.
   (1) implementation-shaped: every list of up to MAXN cells over {atom, keyed by symbol 0..3, keyed by a non-symbol}
       with every address assignment from a small address space: both look-up structures of Lists.tla find exactly what
       the abstract list finds, for every symbol (invariants SimpleFinds, BasicFinds).
   (2) replay cases: every list of up to MAXN items over the item kinds of C16 (number, text, symbol, pair keyed by a
       symbol, pair keyed by a non-symbol, nested list, unit) with distinct key symbols drawn from an adversarial
       symbol set (values colliding modulo every small length, 0, the largest and the middle u64), every address
       padding 0..2, plus concatenations of two such lists. *)
EXTENDS Lists, TLC, Json
CONSTANTS MAXN, MODE           \* MODE = "model" : (1) ; "cases" : (2)
Syms == 0..3
CellKinds == {[k |-> "atom", s |-> 0, v |-> 0]} \cup {[k |-> "keyed", s |-> s, v |-> 10 + s] : s \in Syms} \cup {[k |-> "nskey", s |-> 0, v |-> 0]}
Addrs == 0..(MAXN + 2)
\* symbols as the harness spells them: "#<u64>" ; values collide modulo 1..4 in many ways
SymNames == <<"#0", "#1", "#2", "#3", "#4", "#6", "#8", "#12", "#18446744073709551615", "#9223372036854775808">>
I(n) == [t |-> "int", v |-> n]
Sy(k) == [t |-> "sym", n |-> SymNames[k]]
Keyed(k) == [t |-> "pair", l |-> Sy(k), r |-> I(100 + k)]
\* (a tuple, not a set: TLC cannot compare records whose fields hold values of different kinds)
Plain == << I(5), [t |-> "str", v |-> <<116>>], Sy(2), [t |-> "pair", l |-> I(1), r |-> I(15)], [t |-> "list", v |-> <<I(77), Keyed(5)>>], [t |-> "unit"],       \* the nested list holds a key of its own: it is not a key of the outer list
            [t |-> "pair", l |-> [t |-> "str", v |-> <<107>>], r |-> Sy(1)] >>
ItemKinds == Plain \o [k \in DOMAIN SymNames |-> Keyed(k)]
NK == Len(ItemKinds)
VARIABLES cells, ix, ix2, pad           \* ix, ix2: indexes into ItemKinds of the items of the list / of the second operand of a concatenation
vars == <<cells, ix, ix2, pad>>
items == [i \in DOMAIN ix |-> ItemKinds[ix[i]]]
second == [i \in DOMAIN ix2 |-> ItemKinds[ix2[i]]]
Lens == 0..MAXN
Init == IF MODE = "model"
        THEN /\ \E n \in Lens : cells \in [1..n -> { [k |-> c.k, s |-> c.s, v |-> c.v, a |-> a] : c \in CellKinds, a \in Addrs }]
             /\ ix = <<>> /\ ix2 = <<>> /\ pad = 0
        ELSE /\ cells = <<>> /\ pad \in 0..2
             /\ \E n \in Lens : ix \in [1..n -> 1..NK]
             /\ ix2 \in {<<>>} \cup { <<x>> : x \in 1..NK } \cup { <<Len(Plain) + 1, x>> : x \in 1..NK }
Next == UNCHANGED vars
Spec == Init /\ [][Next]_vars
SimpleFinds == (MODE = "model" /\ CellOK(cells)) => \A sym \in Syms : SimpleLookup(cells, sym) = CellLookup(cells, sym)
BasicFinds == (MODE = "model" /\ CellOK(cells)) => \A sym \in Syms : BasicLookup(cells, sym) = CellLookup(cells, sym)
Emit == (MODE = "cases" /\ AbsDistinct(items \o second)) =>
          PrintT(<<"REPLAY", ToJson([items |-> items, second |-> second, pad |-> pad, syms |-> SymNames])>>)
==============================================================================
