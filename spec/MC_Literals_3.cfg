SPECIFICATION Spec
CONSTANT LEN = 3
INVARIANT Emit
CHECK_DEADLOCK FALSE
