------------------------------- MODULE MC_Truth -------------------------------
(* Mode G for C10, truth table: every value type (with empty and non-empty representatives) as the tested value x
   every construct that tests a value (?>  !>  &&  ||  ^^  !!  ??).  The tested value is the input `$`, so all value
   types are reachable, not only those with a literal.  Design-level check (TruthIsUniform): with the reference
   evaluator, every construct classifies every value exactly as Truthy does - exactly unit and $! are false. *)
EXTENDS Eval, Json
I(n) == MkInt(n)
Str(s) == [t |-> "str", v |-> s]
TruthValues == {
  U, TT, FF, I(0), I(5), MkDy(0, 0), MkDy(1, -1), [t |-> "char", v |-> 97], [t |-> "char", v |-> 0], [t |-> "byte", v |-> 0], [t |-> "byte", v |-> 7],
  MkSym("a"), [t |-> "symlist", v |-> <<MkSym("a"), MkSym("b")>>], Str(<<>>), Str(<<97>>), [t |-> "bytes", v |-> <<>>], [t |-> "bytes", v |-> <<1>>],
  [t |-> "pair", l |-> MkSym("a"), r |-> U], [t |-> "pair", l |-> U, r |-> FF], [t |-> "list", v |-> <<>>], [t |-> "list", v |-> <<FF>>], [t |-> "list", v |-> <<U, U>>],
  [t |-> "concat", l |-> U, r |-> FF], [t |-> "range", l |-> I(0), r |-> I(0)], [t |-> "slice", l |-> [t |-> "list", v |-> <<>>], r |-> [t |-> "range", l |-> I(0), r |-> I(0)]],
  [t |-> "partial", l |-> U, r |-> U], [t |-> "expr", j |-> 0], [t |-> "ext", v |-> 0], [t |-> "type", v |-> "Unit"], [t |-> "type", v |-> "False"] }
\* each construct as an AST (prefix notation) whose value is $? exactly when `$` is true
Constructs == { <<"els", "cond", "val", "tru", "fls">>, <<"els", "condf", "val", "fls", "tru">>, <<"and", "val", "tru">>, <<"or", "val", "fls">>,
                <<"xor", "val", "fls">>, <<"not", "not", "val">>, <<"tis", "val">>, <<"not", "val">>, <<"cond", "val", "tru">>, <<"condf", "val", "fls">> }
VARIABLES ast, v
Init == ast \in Constructs /\ v \in TruthValues
Next == UNCHANGED <<ast, v>>
Spec == Init /\ [][Next]_<<ast, v>>
Result == Eval(TreeOf(ast), v, NoHost, <<>>, FUELMAX).v
TruthIsUniform ==
  CASE ast = <<"not", "val">> -> Result = B(~Truthy(v))
    [] ast = <<"cond", "val", "tru">> -> Result = (IF Truthy(v) THEN TT ELSE v)
    [] ast = <<"condf", "val", "fls">> -> Result = (IF Truthy(v) THEN v ELSE FF)
    [] OTHER -> Result = B(Truthy(v))
Emit == PrintT(<<"REPLAY", ToJson([ast |-> ast, toks |-> Texts(Pr(TreeOf(ast))), input |-> v])>>)
==============================================================================
