-------------------------------- MODULE Layout --------------------------------
(* Layout of a program text (property layer of C18): a text is a sequence of significant tokens with a GAP before,
   between and after them.  The canonical text of an AST (Lang!Pr) has one blank in every inner gap and nothing at the
   ends.  The rewrites the property lists act either on the token sequence
        wrap   a complete operand gets parentheses               (set W of node indexes, pre-order)
        se     a side-effect block without effect `[ 0 ]` is added after (se) or before (seb) a value   (set E of atom indexes)
   or on one gap
        sp     more blanks / tabs                 rm   no blank at all (only where the blank is not the list operator)
        an     an annotation `@x`                 cl   a comment line `@@ c` up to the line break
        tw     trailing blanks before a line break (relative to the text with the bare line break)
   Everything here is decided from the grammar; nothing is read from the implementation. *)
EXTENDS Lang, FiniteSets
\* ---- tokens of the rewritten tree: [txt, must]  (must: the gap before this token is the list operator)
T(x) == [txt |-> x, must |-> FALSE]
MarkFirst(ts) == [i \in DOMAIN ts |-> IF i = 1 THEN [ts[i] EXCEPT !.must = TRUE] ELSE ts[i]]
\* E holds node indexes j (block after the atom j) and negated indexes -j (block before the atom j)
RECURSIVE PrT(_, _, _, _)
WrapT(c, i, need, W, E) == IF need \/ i \in W THEN <<T("(")>> \o PrT(c, i, W, E) \o <<T(")")>> ELSE PrT(c, i, W, E)
PrT(t, i, W, E) ==          \* i = pre-order index of t (root = 1)
  LET k == Kind(t)
      ia == i + 1
      ib == IF t.a = <<>> THEN i + 1 ELSE i + 1 + Size(t.a[1]) IN
  \* (the blank between a leading block and its value is kept: in a list it is the list operator)
  CASE k = "atom" -> (IF (0 - i) \in E THEN <<T("["), T("0"), T("]"), [txt |-> P(t).txt, must |-> TRUE]>> ELSE <<T(P(t).txt)>>) \o (IF i \in E THEN <<T("["), T("0"), T("]")>> ELSE <<>>)
    [] k = "pre" -> <<T(P(t).txt)>> \o WrapT(t.a[1], ia, Paren(t.a[1], P(t).p, FALSE, "preArg"), W, E)
    [] k = "suf" -> WrapT(t.a[1], ia, Paren(t.a[1], P(t).p, FALSE, "sufArg"), W, E) \o <<T(P(t).txt)>>
    [] k = "list" -> WrapT(t.a[1], ia, Paren(t.a[1], 220, FALSE, "left"), W, E) \o MarkFirst(WrapT(t.b[1], ib, Paren(t.b[1], 220, FALSE, "right"), W, E))
    [] k = "nest" -> <<T("{")>> \o PrT(t.a[1], ia, W, E) \o <<T("}")>>
    [] k = "se" -> PrT(t.a[1], ia, W, E) \o <<T("[")>> \o PrT(t.b[1], ib, W, E) \o <<T("]")>>
    [] OTHER -> WrapT(t.a[1], ia, Paren(t.a[1], P(t).p, P(t).r2l, "left"), W, E) \o <<T(P(t).txt)>> \o WrapT(t.b[1], ib, Paren(t.b[1], P(t).p, P(t).r2l, "right"), W, E)
\* ---- where the structural rewrites apply
RECURSIVE NodeAt(_, _, _)
NodeAt(t, i, j) == IF i = j THEN <<t>>
                   ELSE LET na == IF t.a = <<>> THEN 0 ELSE Size(t.a[1]) IN
                        IF t.a # <<>> /\ j <= i + na THEN NodeAt(t.a[1], i + 1, j)
                        ELSE IF t.b # <<>> THEN NodeAt(t.b[1], i + 1 + na, j) ELSE <<>>
RECURSIVE ParentLabel(_, _, _, _)
ParentLabel(t, i, j, up) == IF i = j THEN up
                            ELSE LET na == IF t.a = <<>> THEN 0 ELSE Size(t.a[1]) IN
                                 IF t.a # <<>> /\ j <= i + na THEN ParentLabel(t.a[1], i + 1, j, t.l)
                                 ELSE ParentLabel(t.b[1], i + 1 + na, j, t.l)
\* a complete operand: any sub-expression except a `;` sequence (inside parentheses `;` is a blank), an arm of an else-chain
\* (`|>` looks at the shape of its operands), and the value a side-effect block hangs on
\* and a name after `.` (a property name is a key, in parentheses it would be looked up)
\* and an item sequence under a list operator of the same kind (`a , b , c` has three items, `( a , b ) , c` two)
Ids == {"ida", "idb", "idc"}
Wrappable(t, j) == LET n == NodeAt(t, 1, j)[1]  up == ParentLabel(t, 1, j, "root") IN
                   /\ Kind(n) # "seq" /\ up \notin {"els", "se"}
                   /\ ~(up = "acc" /\ (n.l \in Ids \/ (n.l = "se" /\ n.a[1].l \in Ids)))
                   /\ ~(up \in {"lst", "com"} /\ n.l = up)
\* a value a block can be added after: an atom that is not already followed by a block
Blockable(t, j) == LET n == NodeAt(t, 1, j)[1] IN Kind(n) = "atom" /\ ParentLabel(t, 1, j, "root") # "se"
\* ---- gaps
GapKinds == {"sp2", "tab", "sptab", "rm", "an", "antight", "cl", "cltw", "tw", "twtab"}
\* a program can be laid out on one line (inner gaps are one blank) or one token per line (inner gaps are one line break)
GapTextLines(k) == CASE k = "base" -> "\n" [] k = "end" -> "" [] k = "sp2" -> "\n  " [] k = "tab" -> "\n\t" [] k = "sptab" -> " \t\n" [] k = "rm" -> "\n"
                     [] k = "an" -> " @x\n" [] k = "antight" -> "@x\n" [] k = "cl" -> " @@ c\n" [] k = "cltw" -> " @@ c \t\n " [] k = "tw" -> " \n" [] k = "twtab" -> "\t \n"
                     [] k = "nl" -> "\n"
GapText(k) == CASE k = "base" -> " " [] k = "end" -> "" [] k = "sp2" -> "  " [] k = "tab" -> "\t" [] k = "sptab" -> " \t " [] k = "rm" -> ""
                [] k = "an" -> " @x " [] k = "antight" -> "@x " [] k = "cl" -> " @@ c\n" [] k = "cltw" -> " @@ c \t\n " [] k = "tw" -> " \n" [] k = "twtab" -> "\t \n"
                [] k = "nl" -> "\n"
\* gaps are numbered 0..n for n tokens; gap g stands before token g+1
Inner(ts, g) == g >= 1 /\ g < Len(ts)
Allowed(ts, g, k) == CASE k = "rm" -> Inner(ts, g) /\ ~ts[g + 1].must      \* (in lines mode `rm` is the identity and is not generated)
                       [] k \in {"tw", "twtab"} -> Inner(ts, g)
                       [] k = "antight" -> g < Len(ts)
                       [] OTHER -> TRUE
BaseKind(ts, g) == IF Inner(ts, g) THEN "base" ELSE "end"
RECURSIVE Join(_, _, _)
Join(ts, gaps, i) == IF i > Len(ts) THEN gaps[Len(ts)] ELSE gaps[i - 1] \o ts[i].txt \o Join(ts, gaps, i + 1)
TextOf(ts, kinds, lines) == Join(ts, [g \in 0..Len(ts) |-> IF lines /\ Inner(ts, g) THEN GapTextLines(kinds[g]) ELSE GapText(kinds[g])], 1)
BaseKinds(ts) == [g \in 0..Len(ts) |-> BaseKind(ts, g)]
\* the text a "trailing blanks" rewrite is compared with: the same text with the bare line break in that gap
RefKinds(ts, kinds) == [g \in 0..Len(ts) |-> IF kinds[g] \in {"tw", "twtab"} THEN "nl" ELSE BaseKind(ts, g)]
==============================================================================
