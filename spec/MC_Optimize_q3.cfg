SPECIFICATION Spec
CONSTANT MaxOps = 3
CONSTANT MaxCells = 6
INVARIANT Preserved
INVARIANT Emit
CHECK_DEADLOCK FALSE
