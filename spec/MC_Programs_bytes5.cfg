SPECIFICATION Spec
CONSTANTS N = 5
  ALPHA = {"byab", "bys", "unit", "strab", "n0", "n1", "acc", "leni", "cat", "eq", "lt", "rng", "app", "tyof", "cast"}
INVARIANT Emit
CHECK_DEADLOCK FALSE
