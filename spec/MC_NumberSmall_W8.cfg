SPECIFICATION Spec
CONSTANT W = 8
INVARIANT RangeSafeIsMathematical
CHECK_DEADLOCK FALSE
