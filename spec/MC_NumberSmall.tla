--------------------------- MODULE MC_NumberSmall ---------------------------
(* Mode G for C09, part 1: validates the ORACLE itself.  For a small width W, where TLC can compute the
   unbounded mathematical result directly, the range-safe formulas of Number.tla agree with it on every
   operation and every operand pair.  One state per (operation, a, b). *)
EXTENDS Number, TLC
VARIABLES op, a, b
vars == <<op, a, b>>
Init == /\ op \in BinaryOps \cup UnaryOps
        /\ a \in MINW..MAXW
        /\ b \in (IF op \in BinaryOps THEN MINW..MAXW ELSE {0})
Next == UNCHANGED vars
Spec == Init /\ [][Next]_vars
RangeSafeIsMathematical ==
  IF op \in BinaryOps THEN Safe(op, a, b) = Math(op, a, b) ELSE SafeU(op, a) = MathU(op, a)
=============================================================================
