SPECIFICATION Spec
CONSTANT REPS = "one"
INVARIANT Emit
CHECK_DEADLOCK FALSE
