-------------------------------- MODULE V_C02 --------------------------------
(* Mode V for C02: the node table returned by the real parse() for each generated expression, read as a tree (Group nodes
   replaced by their content), must be the tree the operator table dictates (RefParse!RefTree of the same tokens), for the
   plain spelling and for its fully parenthesised twin ("writing out the parentheses the table implies changes nothing
   but the added group nodes"). *)
EXTENDS RefParse, Json, IOUtils, KnownFindingsLex
Obs == ndJsonDeserialize(IOEnv.OBS)
VARIABLE c
Init == c \in DOMAIN Obs
Next == UNCHANGED c
Spec == Init /\ [][Next]_c
RECURSIVE RealTree(_, _, _)
RealTree(nodes, i, fuel) ==
  IF i < 0 \/ i >= Len(nodes) \/ fuel = 0 THEN <<>>       \* a link past the node table is no child (C04 judges such links)
  ELSE LET n == nodes[i + 1] IN
       IF n.d = "Group" THEN RealTree(nodes, n.r, fuel - 1)
       ELSE << [d |-> IF n.d = "Property" THEN "Identifier" ELSE n.d, l |-> RealTree(nodes, n.l, fuel - 1), r |-> RealTree(nodes, n.r, fuel - 1)] >>
Verdict(o) ==
  LET exp == RefTree(o.toks) IN
  IF "fail" \in DOMAIN o THEN [ok |-> FALSE, why |-> "the parser rejects a well-formed expression: " \o o.fail.stage \o " " \o o.fail.status, exp |-> exp, got |-> <<>>]
  ELSE LET got == RealTree(o.nodes, o.root, Len(o.nodes) + 1) IN
       IF o.variant = "aftersep"       \* `7 ; e` : the separator binds loosest, e is its whole right operand
       THEN (IF Len(got) = 1 /\ got[1].d \in {"Subexpression", "ExpressionSeparator"} /\ got[1].r = exp THEN [ok |-> TRUE, why |-> "", exp |-> exp, got |-> got]
             ELSE [ok |-> FALSE, why |-> "after a separator the expression parses to a different tree", exp |-> exp, got |-> got])
       ELSE IF got = exp THEN [ok |-> TRUE, why |-> "", exp |-> exp, got |-> got]
       ELSE [ok |-> FALSE, why |-> IF o.variant = "paren" THEN "the fully parenthesised spelling parses to a different tree" ELSE "the tree is not the one the operator table dictates", exp |-> exp, got |-> got]
Report == Verdict(Obs[c]).ok \/ PrintT(<<"FAIL", ToJson([c |-> c, src |-> Obs[c].src, variant |-> Obs[c].variant, why |-> Verdict(Obs[c]).why,
                                                       expected |-> Verdict(Obs[c]).exp, got |-> Verdict(Obs[c]).got, kf |-> KF_C02(Obs[c])])>>)
==============================================================================
