SPECIFICATION Spec
INVARIANT Balanced
CONSTRAINT Bound
CHECK_DEADLOCK FALSE
