SPECIFICATION Spec
CONSTANTS N = 6
  ALPHA = {"val", "n1", "add", "nest", "app", "appto", "emp", "seq"}
INVARIANT Emit
CHECK_DEADLOCK FALSE
