//! Value vocabulary shared with the TLA+ side (spec/Values.tla):
//!   {"t":"unit"|"true"|"false"}  {"t":"int","v":i32}  {"t":"float","s":"<repr>"}
//!   {"t":"char","v":codepoint}  {"t":"byte","v":n}  {"t":"sym","n":"name"|"#<u64>"}
//!   {"t":"symlist","v":[parts]}  {"t":"str","v":[codepoints]}  {"t":"bytes","v":[n]}
//!   {"t":"pair","l":..,"r":..}  {"t":"list","v":[..]}  {"t":"concat","l","r"}  {"t":"range","l","r"}
//!   {"t":"slice","l","r"}  {"t":"partial","l","r"}  {"t":"expr","j":n}  {"t":"ext","v":n}  {"t":"type","v":"Number"}
//! `make` builds a value in a store through the public GarnishData API, `show` reads one back
//! through the getters only.  Only integers within i32 and strings are emitted (TLC's Json module
//! truncates anything else silently).
use crate::store::Store;
use garnish_lang::simple::{symbol_value, SimpleNumber};
use garnish_lang::{Extents, GarnishDataType as T, SymbolListPart};
use serde_json::{json, Value};
use std::cell::RefCell;
use std::collections::HashMap;

thread_local! { static NAMES: RefCell<HashMap<u64, String>> = RefCell::new(HashMap::new()); }

/// Symbol value of a name, remembered so that `show` can print the name again.
pub fn sym_of_name(name: &str) -> u64 {
    if let Some(rest) = name.strip_prefix('#') {
        if let Ok(v) = rest.parse::<u64>() {
            return v;
        }
    }
    let v = symbol_value(name);
    NAMES.with(|m| m.borrow_mut().insert(v, name.to_string()));
    v
}

/// Register every identifier-like word of a source text as a possible symbol name.
pub fn learn_names(src: &str) {
    let mut cur = String::new();
    for c in src.chars().chain(std::iter::once(' ')) {
        if c.is_alphanumeric() || c == '_' {
            cur.push(c);
        } else {
            if !cur.is_empty() {
                sym_of_name(&cur);
                cur.clear();
            }
        }
    }
}

pub fn sym_label<S: Store>(_d: &S, sym: u64) -> String {
    NAMES.with(|m| m.borrow().get(&sym).cloned()).unwrap_or_else(|| format!("#{}", sym))
}

pub fn type_name(t: T) -> String {
    format!("{:?}", t)
}

pub fn type_of_name(s: &str) -> T {
    match s {
        "Unit" => T::Unit,
        "Number" => T::Number,
        "Type" => T::Type,
        "Char" => T::Char,
        "CharList" => T::CharList,
        "Byte" => T::Byte,
        "ByteList" => T::ByteList,
        "Symbol" => T::Symbol,
        "SymbolList" => T::SymbolList,
        "Pair" => T::Pair,
        "Range" => T::Range,
        "Concatenation" => T::Concatenation,
        "Slice" => T::Slice,
        "Partial" => T::Partial,
        "List" => T::List,
        "Expression" => T::Expression,
        "External" => T::External,
        "True" => T::True,
        "False" => T::False,
        "Custom" => T::Custom,
        _ => T::Invalid,
    }
}

pub fn num_json(n: SimpleNumber) -> Value {
    match n {
        SimpleNumber::Integer(i) => json!({"t": "int", "v": i}),
        SimpleNumber::Float(f) => float_json(f),
    }
}

/// Floats cross the wire as text plus an exact description TLC can compute with:
/// k = zero|nzero|fin|nan|inf|ninf; for finite non-zero values x = floor(log2 |f|) and, when the odd
/// mantissa fits 31 bits, the exact dyadic form f = m * 2^e (m odd).
pub fn float_json(f: f64) -> Value {
    let mut o = json!({"t": "float", "s": format!("{:?}", f)});
    let k = if f.is_nan() { "nan" } else if f == f64::INFINITY { "inf" } else if f == f64::NEG_INFINITY { "ninf" } else if f == 0.0 { if f.is_sign_negative() { "nzero" } else { "zero" } } else { "fin" };
    o["k"] = json!(k);
    o["sg"] = json!(if f.is_nan() || f == 0.0 { 0 } else if f < 0.0 { -1 } else { 1 });
    if k == "fin" {
        let bits = f.to_bits();
        let neg = (bits >> 63) == 1;
        let bexp = ((bits >> 52) & 0x7ff) as i64;
        let frac = bits & ((1u64 << 52) - 1);
        let (mut m, mut e) = if bexp == 0 { (frac, -1074i64) } else { (frac | (1u64 << 52), bexp - 1075) };
        while m & 1 == 0 {
            m >>= 1;
            e += 1;
        }
        let x = 63 - m.leading_zeros() as i64 + e;
        o["x"] = json!(x);
        if m < (1u64 << 31) {
            o["m"] = json!(if neg { -(m as i64) } else { m as i64 });
            o["e"] = json!(e);
        }
    }
    o
}

fn ldexp(m: i64, e: i64) -> f64 {
    let mut f = m as f64;
    let mut k = e;
    while k > 0 {
        f *= 2.0;
        k -= 1;
    }
    while k < 0 {
        f *= 0.5;
        k += 1;
    }
    f
}

pub fn num_of(d: &Value) -> Result<SimpleNumber, String> {
    match d["t"].as_str() {
        Some("int") => Ok(SimpleNumber::Integer(d["v"].as_i64().ok_or("int without v")? as i32)),
        Some("float") => {
            if let (Some(m), Some(e)) = (d["m"].as_i64(), d["e"].as_i64()) {
                return Ok(SimpleNumber::Float(ldexp(m, e)));
            }
            let s = d["s"].as_str().ok_or("float without s")?;
            let f = match s {
                "NaN" => f64::NAN,
                "inf" => f64::INFINITY,
                "-inf" => f64::NEG_INFINITY,
                _ => s.parse::<f64>().map_err(|e| e.to_string())?,
            };
            Ok(SimpleNumber::Float(f))
        }
        _ => Err("not a number descriptor".into()),
    }
}

fn e<E: std::fmt::Display>(x: E) -> String {
    format!("{}", x)
}

/// Like `make`, but identical sub-descriptions inside one value are built ONCE and shared by address
/// (C11/C19: "shared sub-values").
pub fn make_shared<S: Store>(d: &mut S, v: &Value, cache: &mut HashMap<String, usize>) -> Result<usize, String> {
    let key = v.to_string();
    if let Some(a) = cache.get(&key) {
        return Ok(*a);
    }
    let t = v["t"].as_str().unwrap_or("");
    let a = match t {
        "pair" | "concat" | "range" | "slice" | "partial" => {
            let l = make_shared(d, &v["l"], cache)?;
            let r = make_shared(d, &v["r"], cache)?;
            match t {
                "pair" => d.add_pair((l, r)),
                "concat" => d.add_concatenation(l, r),
                "range" => d.add_range(l, r),
                "slice" => d.add_slice(l, r),
                _ => d.add_partial(l, r),
            }
            .map_err(e)?
        }
        "list" => {
            let items = v["v"].as_array().ok_or("list without v")?;
            let mut addrs = vec![];
            for it in items {
                addrs.push(make_shared(d, it, cache)?);
            }
            let mut l = d.start_list(addrs.len()).map_err(e)?;
            for a in addrs {
                l = d.add_to_list(l, a).map_err(e)?;
            }
            d.end_list(l).map_err(e)?
        }
        _ => make(d, v)?,
    };
    cache.insert(key, a);
    Ok(a)
}

/// Build the described value through the public API; returns its address.
pub fn make<S: Store>(d: &mut S, v: &Value) -> Result<usize, String> {
    let t = v["t"].as_str().ok_or_else(|| format!("descriptor without t: {}", v))?;
    match t {
        "unit" => d.add_unit().map_err(e),
        "true" => d.add_true().map_err(e),
        "false" => d.add_false().map_err(e),
        "int" | "float" => d.add_number(num_of(v)?).map_err(e),
        "char" => d.add_char(char::from_u32(v["v"].as_u64().unwrap_or(63) as u32).unwrap_or('?')).map_err(e),
        "byte" => d.add_byte(v["v"].as_u64().unwrap_or(0) as u8).map_err(e),
        "sym" => {
            let n = v["n"].as_str().unwrap_or("");
            if n.starts_with('#') {
                d.add_symbol(sym_of_name(n)).map_err(e)
            } else {
                sym_of_name(n);
                d.parse_add_symbol(n).map_err(e)
            }
        }
        "symlist" => {
            let parts = v["v"].as_array().ok_or("symlist without v")?;
            let mut cur: Option<usize> = None;
            for p in parts {
                let a = make(d, p)?;
                cur = Some(match cur {
                    None => a,
                    Some(c) => d.merge_to_symbol_list(c, a).map_err(e)?,
                });
            }
            cur.ok_or_else(|| "empty symlist".to_string())
        }
        "str" => {
            let s: String = v["v"].as_array().ok_or("str without v")?.iter().map(|c| char::from_u32(c.as_u64().unwrap_or(63) as u32).unwrap_or('?')).collect();
            d.mk_str(&s).map_err(e)
        }
        "bytes" => {
            let b: Vec<u8> = v["v"].as_array().ok_or("bytes without v")?.iter().map(|c| c.as_u64().unwrap_or(0) as u8).collect();
            d.mk_bytes(&b).map_err(e)
        }
        "deep" => {
            // deeply nested data, built iteratively: {"t":"deep","k":"pairl|pairr|list|concatl|concatr|slice","depth":N}
            let n = v["depth"].as_u64().unwrap_or(0);
            let k = v["k"].as_str().unwrap_or("pairl");
            let mut cur = d.add_number(SimpleNumber::Integer(1)).map_err(e)?;
            let two = d.add_number(SimpleNumber::Integer(2)).map_err(e)?;
            let zero = d.add_number(SimpleNumber::Integer(0)).map_err(e)?;
            for _ in 0..n {
                cur = match k {
                    "pairl" => d.add_pair((cur, two)),
                    "pairr" => d.add_pair((two, cur)),
                    "concatl" => d.add_concatenation(cur, two),
                    "concatr" => d.add_concatenation(two, cur),
                    "slice" => {
                        let r = d.add_range(zero, two).map_err(e)?;
                        d.add_slice(cur, r)
                    }
                    _ => {
                        let l = d.start_list(2).map_err(e)?;
                        let l = d.add_to_list(l, cur).map_err(e)?;
                        let l = d.add_to_list(l, two).map_err(e)?;
                        d.end_list(l)
                    }
                }
                .map_err(e)?;
            }
            Ok(cur)
        }
        "pair" | "concat" | "range" | "slice" | "partial" => {
            let l = make(d, &v["l"])?;
            let r = make(d, &v["r"])?;
            match t {
                "pair" => d.add_pair((l, r)),
                "concat" => d.add_concatenation(l, r),
                "range" => d.add_range(l, r),
                "slice" => d.add_slice(l, r),
                _ => d.add_partial(l, r),
            }
            .map_err(e)
        }
        "list" => {
            let items = v["v"].as_array().ok_or("list without v")?;
            let mut addrs = vec![];
            for it in items {
                addrs.push(make(d, it)?);
            }
            let mut l = d.start_list(addrs.len()).map_err(e)?;
            for a in addrs {
                l = d.add_to_list(l, a).map_err(e)?;
            }
            d.end_list(l).map_err(e)
        }
        "expr" => d.add_expression(v["j"].as_u64().unwrap_or(0) as usize).map_err(e),
        "ext" => d.add_external(v["v"].as_u64().unwrap_or(0) as usize).map_err(e),
        "type" => d.add_type(type_of_name(v["v"].as_str().unwrap_or(""))).map_err(e),
        _ => Err(format!("unknown descriptor {}", v)),
    }
}

pub fn full_extents() -> Extents<SimpleNumber> {
    Extents::new(SimpleNumber::Integer(0), SimpleNumber::Integer(i32::MAX))
}

/// Read a value back structurally, through the getters only.
pub fn show<S: Store>(d: &S, a: usize, depth: usize) -> Value {
    if depth > 12 {
        return json!({"t": "deep"});
    }
    let t = match d.get_data_type(a) {
        Ok(t) => t,
        Err(x) => return json!({"t": "bad", "why": e(x)}),
    };
    let sub = |x: usize| show(d, x, depth + 1);
    macro_rules! two {
        ($tag:expr, $get:ident) => {
            match d.$get(a) {
                Ok((l, r)) => json!({"t": $tag, "l": sub(l), "r": sub(r)}),
                Err(x) => json!({"t": "bad", "why": e(x)}),
            }
        };
    }
    match t {
        T::Unit => json!({"t": "unit"}),
        T::True => json!({"t": "true"}),
        T::False => json!({"t": "false"}),
        T::Number => d.get_number(a).map(num_json).unwrap_or_else(|x| json!({"t": "bad", "why": e(x)})),
        T::Char => d.get_char(a).map(|c| json!({"t": "char", "v": c as u32})).unwrap_or_else(|x| json!({"t": "bad", "why": e(x)})),
        T::Byte => d.get_byte(a).map(|c| json!({"t": "byte", "v": c})).unwrap_or_else(|x| json!({"t": "bad", "why": e(x)})),
        T::Symbol => d.get_symbol(a).map(|s| json!({"t": "sym", "n": sym_label(d, s)})).unwrap_or_else(|x| json!({"t": "bad", "why": e(x)})),
        T::SymbolList => match d.get_symbol_list_iter(a, full_extents()) {
            Ok(it) => json!({"t": "symlist", "v": it.map(|p| match p { SymbolListPart::Symbol(s) => json!({"t": "sym", "n": sym_label(d, s)}), SymbolListPart::Number(n) => num_json(n) }).collect::<Vec<_>>()}),
            Err(x) => json!({"t": "bad", "why": e(x)}),
        },
        T::CharList => match d.get_char_list_iter(a, full_extents()) {
            Ok(it) => json!({"t": "str", "v": it.map(|c| c as u32).collect::<Vec<_>>()}),
            Err(x) => json!({"t": "bad", "why": e(x)}),
        },
        T::ByteList => match d.get_byte_list_iter(a, full_extents()) {
            Ok(it) => json!({"t": "bytes", "v": it.collect::<Vec<_>>()}),
            Err(x) => json!({"t": "bad", "why": e(x)}),
        },
        T::Pair => two!("pair", get_pair),
        T::Concatenation => two!("concat", get_concatenation),
        T::Range => two!("range", get_range),
        T::Slice => two!("slice", get_slice),
        T::Partial => two!("partial", get_partial),
        T::List => match d.get_list_len(a) {
            Ok(n) => {
                let mut v = vec![];
                for i in 0..n {
                    v.push(match d.get_list_item(a, SimpleNumber::Integer(i as i32)) {
                        Ok(Some(x)) => sub(x),
                        Ok(None) => json!({"t": "bad", "why": "no item"}),
                        Err(x) => json!({"t": "bad", "why": e(x)}),
                    });
                }
                json!({"t": "list", "v": v})
            }
            Err(x) => json!({"t": "bad", "why": e(x)}),
        },
        T::Expression => d.get_expression(a).map(|j| json!({"t": "expr", "j": j})).unwrap_or_else(|x| json!({"t": "bad", "why": e(x)})),
        T::External => d.get_external(a).map(|j| json!({"t": "ext", "v": j})).unwrap_or_else(|x| json!({"t": "bad", "why": e(x)})),
        T::Type => d.get_type(a).map(|j| json!({"t": "type", "v": type_name(j)})).unwrap_or_else(|x| json!({"t": "bad", "why": e(x)})),
        other => json!({"t": "other", "k": type_name(other)}),
    }
}
