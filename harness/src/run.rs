//! `run`: source text -> lex -> parse -> build -> stepped execution on each store, with the value-level
//! state projected after every instruction (the events TraceVM.tla validates), the host call log, and
//! the final value.  `lit`: one-literal programs with extra read-back detail (C14).
use crate::guarded;
use crate::store::{BasicD, BasicN, Host, SimpleD, Store};
use crate::val::{learn_names, make, show};
use garnish_lang::compiler::build::build;
use garnish_lang::compiler::lex::lex;
use garnish_lang::compiler::parse::parse;
use garnish_lang::simple::{execute_current_instruction, SimpleRuntimeState};
use garnish_lang::{GarnishDataType, Instruction};
use serde_json::{json, Value};

pub struct Built {
    pub start: usize,
    pub ibase: usize,
    pub jbase: usize,
    pub dbase: usize,
    pub entry_jump: usize,
    pub nnodes: usize,
    pub meta: Vec<i64>,
}

pub enum CompileFail {
    Lex(String),
    Parse(String),
    Build(String),
    Panic(&'static str, String),
}

impl CompileFail {
    pub fn json(&self) -> Value {
        match self {
            CompileFail::Lex(m) => json!({"status": "lexerr", "msg": m}),
            CompileFail::Parse(m) => json!({"status": "parseerr", "msg": m}),
            CompileFail::Build(m) => json!({"status": "builderr", "msg": m}),
            CompileFail::Panic(stage, m) => json!({"status": "compilepanic", "stage": stage, "msg": m}),
        }
    }
}

pub fn compile_into<S: Store>(src: &str, data: &mut S) -> Result<Built, CompileFail> {
    let tokens = match guarded(|| lex(src)) {
        Err(m) => return Err(CompileFail::Panic("lex", m)),
        Ok(Err(e)) => return Err(CompileFail::Lex(e.get_message().clone())),
        Ok(Ok(t)) => t,
    };
    let pr = match guarded(|| parse(&tokens)) {
        Err(m) => return Err(CompileFail::Panic("parse", m)),
        Ok(Err(e)) => return Err(CompileFail::Parse(e.get_message().clone())),
        Ok(Ok(t)) => t,
    };
    let (ibase, jbase, dbase) = (data.get_instruction_len(), data.get_jump_table_len(), data.get_data_len());
    let nnodes = pr.get_nodes().len();
    let bd = match guarded(|| build(pr.get_root(), pr.get_nodes().clone(), data)) {
        Err(m) => return Err(CompileFail::Panic("build", m)),
        Ok(Err(e)) => return Err(CompileFail::Build(e.get_message().clone())),
        Ok(Ok(b)) => b,
    };
    let entry_jump = *bd.jump_index();
    let start = match data.get_from_jump_table(entry_jump) {
        Some(s) => s,
        None => return Err(CompileFail::Build(format!("reported entry {} not in jump table", entry_jump))),
    };
    let meta = bd.instruction_metadata().iter().map(|m| m.get_parse_node_index().map(|x| x as i64).unwrap_or(-1)).collect();
    Ok(Built { start, ibase, jbase, dbase, entry_jump, nnodes, meta })
}

pub fn program_json<S: Store>(data: &S) -> (Vec<Value>, Vec<Value>) {
    let n = data.get_instruction_len();
    let mut ins = vec![];
    for i in 0..n {
        let (op, d) = data.get_instruction(i).unwrap_or((Instruction::Invalid, None));
        let c = match (op, d) {
            (Instruction::Put | Instruction::Resolve, Some(a)) => show(data, a, 0),
            _ => json!({"t": "unit"}),
        };
        ins.push(json!({"op": format!("{:?}", op), "d": d.map(|x| x as i64).unwrap_or(-1), "c": c}));
    }
    let jumps = (0..data.get_jump_table_len()).map(|j| json!(data.get_from_jump_table(j).map(|x| x as i64).unwrap_or(-1))).collect();
    (ins, jumps)
}

fn snapshot<S: Store>(data: &S) -> (Vec<Value>, Vec<Value>, Vec<Value>) {
    let regs = data.reg_addrs().iter().map(|a| show(data, *a, 0)).collect();
    let vals = data.val_addrs().iter().map(|a| show(data, *a, 0)).collect();
    let frames = data.frame_rets().iter().map(|a| json!(*a as i64)).collect();
    (regs, vals, frames)
}

/// Stable key of an error / panic message: the text up to the first digit, colon or parenthesis (TLC matches
/// known-finding signatures by string equality, so variable parts must be cut off here).
pub fn msg_key(msg: &str) -> String {
    // messages look like  "<runtime message> | Some(\"<data error> (...)\")"  or  "<runtime message> | None"
    let (head, tail) = match msg.find(" | ") { Some(i) => (&msg[..i], &msg[i + 3..]), None => (msg, "") };
    let inner = match tail.find("Some(\"") { Some(i) => &tail[i + 6..], None => head };
    let inner = if inner.trim().is_empty() { head } else { inner };
    let cut = inner.find(|c: char| c.is_ascii_digit() || c == ':' || c == '(' || c == '@').unwrap_or(inner.len());
    inner[..cut].trim().trim_end_matches('.').chars().take(60).collect()
}

pub struct RunOpts {
    pub trace: bool,
    pub inject: bool,
    pub max_steps: usize,
}

/// Execute from `start` with `input` as `$`; returns the observation for one store.
pub fn execute<S: Store>(data: &mut S, start: usize, input: usize, opts: &RunOpts, out: &mut serde_json::Map<String, Value>) {
    if let Err(e) = data.set_instruction_cursor(start) {
        out.insert("status".into(), json!("err"));
        out.insert("msg".into(), json!(format!("{}", e)));
        return;
    }
    let d0 = (data.reg_addrs().len(), data.val_addrs().len(), data.frame_rets().len());
    if let Err(e) = data.push_value_stack(input) {
        out.insert("status".into(), json!("err"));
        out.insert("msg".into(), json!(format!("{}", e)));
        return;
    }
    let mut events = vec![];
    let mut status = "steps";
    let mut msg = String::new();
    let mut maxdepth = 0usize;
    let mut steps = 0usize;
    let mut injections = 0usize;
    let mut inject_err = String::new();
    loop {
        if steps >= opts.max_steps {
            break;
        }
        if opts.inject && S::is_basic() {
            match guarded(|| data.compact(&[])) {
                Ok(Some(Ok(_))) => injections += 1,
                Ok(Some(Err(m))) => inject_err = format!("optimize err: {}", m),
                Ok(None) => {}
                Err(m) => inject_err = format!("optimize panic: {}", m),
            }
            if !inject_err.is_empty() {
                status = "injecterr";
                msg = inject_err.clone();
                break;
            }
        }
        let pc = data.get_instruction_cursor();
        let r = guarded(|| execute_current_instruction(data));
        steps += 1;
        let st = match &r {
            Err(m) => {
                msg = m.clone();
                "panic"
            }
            Ok(Err(e)) => {
                msg = format!("{} | {:?}", e.get_message(), std::error::Error::source(e).map(|s| s.to_string().lines().next().unwrap_or("").to_string()));
                "err"
            }
            Ok(Ok(i)) => {
                if i.get_state() == SimpleRuntimeState::End {
                    "end"
                } else {
                    "run"
                }
            }
        };
        let nregs = data.get_register_len();
        if nregs > maxdepth {
            maxdepth = nregs;
        }
        if opts.trace {
            let (regs, vals, frames) = if st == "panic" { (vec![], vec![], vec![]) } else { snapshot(data) };
            let calls = data.host().map(|h| h.log.iter().filter(|e| !e.contains("\"cb\":\"defer\"")).count()).unwrap_or(0);
            events.push(json!({"pc": pc, "status": st, "next": data.get_instruction_cursor(), "regs": regs, "vals": vals, "frames": frames, "calls": calls}));
        }
        if st != "run" {
            status = if st == "end" { "ok" } else { st };
            break;
        }
    }
    out.insert("status".into(), json!(status));
    out.insert("msgk".into(), json!(msg_key(&msg)));
    out.insert("msg".into(), json!(msg));
    out.insert("steps".into(), json!(steps));
    out.insert("maxdepth".into(), json!(maxdepth));
    out.insert("injections".into(), json!(injections));
    if status == "ok" {
        let v = data.get_current_value();
        out.insert("value".into(), v.map(|a| show(data, a, 0)).unwrap_or(json!({"t": "bad", "why": "no current value"})));
        // depths relative to the state before the input value was pushed
        let d1 = (data.reg_addrs().len(), data.val_addrs().len(), data.frame_rets().len());
        out.insert("dregs".into(), json!(d1.0 as i64 - d0.0 as i64));
        out.insert("dvals".into(), json!(d1.1 as i64 - d0.1 as i64 - 1));
        out.insert("dframes".into(), json!(d1.2 as i64 - d0.2 as i64));
    }
    out.insert("log".into(), json!(data.host().map(|h| h.log_json()).unwrap_or_default()));
    if opts.trace {
        out.insert("events".into(), json!(events));
    }
}

fn run_on<S: Store>(case: &Value, opts: &RunOpts) -> Value {
    let src = case["src"].as_str().unwrap_or("");
    learn_names(src);
    let host = Host::from_json(&case["host"]);
    let mut data = S::fresh(host);
    let mut out = serde_json::Map::new();
    out.insert("store".into(), json!(S::name()));
    let via_clone = case["via"].as_str() == Some("clone");
    let mk_input = |data: &mut S| if case["input"].is_null() { data.add_unit().map_err(|e| format!("{}", e)) } else { make(data, &case["input"]) };
    let mut input = Ok(0usize);
    if !via_clone {
        input = mk_input(&mut data);
    }
    let b = match if input.is_ok() { compile_into(src, &mut data) } else { Err(CompileFail::Build(String::new())) } {
        Ok(b) => b,
        Err(f) => {
            if input.is_ok() {
                let mut o = f.json();
                o.as_object_mut().unwrap().insert("store".into(), json!(S::name()));
                return o;
            }
            Built { start: 0, ibase: 0, jbase: 0, dbase: 0, entry_jump: 0, nnodes: 0, meta: vec![] }
        }
    };
    if via_clone {
        // compile once, run in a working copy: the input value is created in the copy
        match data.working_copy() {
            Some(Ok(c)) => data = c,
            Some(Err(m)) => input = Err(format!("working copy: {}", m)),
            None => {
                out.insert("status".into(), json!("na"));
                return Value::Object(out);
            }
        }
        if input.is_ok() {
            input = mk_input(&mut data);
        }
    }
    let input = match input {
        Ok(a) => a,
        Err(m) => {
            out.insert("status".into(), json!("inputerr"));
            out.insert("msg".into(), json!(m));
            return Value::Object(out);
        }
    };
    out.insert("start".into(), json!(b.start));
    out.insert("ibase".into(), json!(b.ibase));
    out.insert("jbase".into(), json!(b.jbase));
    out.insert("inputv".into(), show(&data, input, 0));
    if opts.trace {
        let (ins, jumps) = program_json(&data);
        out.insert("ins".into(), json!(ins));
        out.insert("jumps".into(), json!(jumps));
    }
    if opts.inject {
        // what a host does before it lets the collector run: the program's constants and the input value are kept
        data.retain_now();
    }
    execute(&mut data, b.start, input, opts, &mut out);
    Value::Object(out)
}

/// case: {"src", "input": desc|null, "host": {...}|null, "trace": bool, "inject": bool, "max_steps": n, "stores": "both"|"simple"|"basic"}
pub fn run_case(case: &Value, _extra: &[String]) -> Value {
    let opts = RunOpts { trace: case["trace"].as_bool().unwrap_or(false), inject: case["inject"].as_bool().unwrap_or(false), max_steps: case["max_steps"].as_u64().unwrap_or(2000) as usize };
    let which = case["stores"].as_str().unwrap_or("both");
    let mut runs = vec![];
    if which != "basic" {
        runs.push(run_on::<SimpleD>(case, &opts));
    }
    if which != "simple" {
        if case["host"].is_null() {
            runs.push(run_on::<BasicN>(case, &opts));
        } else {
            runs.push(run_on::<BasicD>(case, &opts));
        }
    }
    let mut o = json!({"src": case["src"], "runs": runs});
    for k in ["id", "ast", "input", "host", "exp", "explog", "tag", "inject", "variant_of", "base", "via"] {
        if !case[k].is_null() {
            o[k] = case[k].clone();
        }
    }
    o
}

// ------------------------------------------------------------------------------------------- lit (C14)

fn lit_on<S: Store>(case: &Value) -> Value {
    let src_owned = crate::compile::src_of(case);
    let src = src_owned.as_str();
    learn_names(src);
    let mut data = S::fresh(Host::default());
    let mut out = serde_json::Map::new();
    out.insert("store".into(), json!(S::name()));
    let input = data.add_unit().unwrap();
    let b = match compile_into(src, &mut data) {
        Ok(b) => b,
        Err(f) => {
            let mut o = f.json();
            o.as_object_mut().unwrap().insert("store".into(), json!(S::name()));
            return o;
        }
    };
    let opts = RunOpts { trace: false, inject: false, max_steps: 200 };
    execute(&mut data, b.start, input, &opts, &mut out);
    if out.get("status").and_then(|s| s.as_str()) == Some("ok") {
        if let Some(a) = data.get_current_value() {
            match data.get_data_type(a) {
                Ok(GarnishDataType::CharList) => {
                    out.insert("len".into(), data.get_char_list_len(a).map(|n| json!(n)).unwrap_or(json!(-1)));
                    let n = data.get_char_list_len(a).unwrap_or(0).min(64);
                    let items: Vec<Value> = (0..n)
                        .map(|i| match guarded(|| data.get_char_list_item(a, garnish_lang::simple::SimpleNumber::Integer(i as i32))) {
                            Ok(Ok(Some(c))) => json!(c as u32),
                            _ => json!(-1),
                        })
                        .collect();
                    out.insert("items".into(), json!(items));
                }
                Ok(GarnishDataType::ByteList) => {
                    out.insert("len".into(), data.get_byte_list_len(a).map(|n| json!(n)).unwrap_or(json!(-1)));
                }
                Ok(GarnishDataType::Symbol) => {
                    let s = data.get_symbol(a).unwrap_or(0);
                    match guarded(|| data.sym_name(s)) {
                        Ok(name) => {
                            out.insert("symname".into(), match name { Some(n) => json!(n.chars().map(|c| c as u32).collect::<Vec<_>>()), None => json!([-1]) });
                        }
                        Err(m) => {
                            out.insert("symname".into(), json!([-2]));
                            out.insert("symname_panic".into(), json!(m));
                        }
                    }
                    let nm: String = case["name"].as_array().map(|a| a.iter().map(|c| char::from_u32(c.as_u64().unwrap_or(63) as u32).unwrap_or('?')).collect()).unwrap_or_default();
                    out.insert("symhash_ok".into(), json!(s == garnish_lang::simple::symbol_value(&nm)));
                }
                _ => {}
            }
        }
    }
    Value::Object(out)
}

pub fn lit_case(case: &Value) -> Value {
    let runs = vec![lit_on::<SimpleD>(case), lit_on::<BasicN>(case)];
    let mut o = case.clone();
    o["runs"] = json!(runs);
    o
}
