//! gverif — replay harness of the garnish-core verification machinery (DESIGN.md 3.2, mode R).
//!
//! `gverif <subcommand> <cases.ndjson> <from> <to> [args]` runs the cases `from..to` (0-based line
//! numbers) of the case file through the REAL garnish-core code and prints exactly one JSON
//! observation line per case on stdout (flushed), in order.  A panic of the code under test is data:
//! it is caught and reported in the observation.  Hangs and aborts are handled by the supervisor in
//! lib/vlib.py (watchdog + restart after the stuck case).  Nothing here decides a property.
mod compile;
mod layout;
mod lists;
mod multi;
mod num;
mod op;
mod opt;
mod run;
mod store;
mod storecmd;
mod val;

use serde_json::{json, Value};
use std::cell::RefCell;
use std::io::{BufRead, Write};

thread_local! { static PANIC_MSG: RefCell<String> = RefCell::new(String::new()); }

pub fn last_panic() -> String {
    PANIC_MSG.with(|m| m.borrow().clone())
}

/// Run `f` catching panics of the code under test; Err(message with location) on panic.
pub fn guarded<T>(f: impl FnOnce() -> T) -> Result<T, String> {
    match std::panic::catch_unwind(std::panic::AssertUnwindSafe(f)) {
        Ok(v) => Ok(v),
        Err(_) => Err(last_panic()),
    }
}

fn main() {
    std::panic::set_hook(Box::new(|info| {
        let loc = info.location().map(|l| format!("{}:{}", l.file().rsplit("/repo/").next().unwrap_or(l.file()), l.line())).unwrap_or_default();
        let msg = if let Some(s) = info.payload().downcast_ref::<&str>() {
            s.to_string()
        } else if let Some(s) = info.payload().downcast_ref::<String>() {
            s.clone()
        } else {
            "panic".to_string()
        };
        PANIC_MSG.with(|m| *m.borrow_mut() = format!("{} @ {}", msg.chars().take(160).collect::<String>(), loc));
    }));
    let args: Vec<String> = std::env::args().collect();
    if args.len() < 5 {
        eprintln!("usage: gverif <subcommand> <cases.ndjson> <from> <to> [args]");
        std::process::exit(2);
    }
    let sub = args[1].clone();
    let from: usize = args[3].parse().unwrap();
    let to: usize = args[4].parse().unwrap();
    let extra: Vec<String> = args[5..].to_vec();
    let file = std::fs::File::open(&args[2]).expect("case file");
    let reader = std::io::BufReader::new(file);
    let out = std::io::stdout();
    // the real work runs on a thread whose stack size the check chooses (GVERIF_STACK_MB): large by default so that the
    // harness's own recursive read-back never limits a check; C03 uses Rust's default thread stack (2 MiB), so that a
    // stack overflow of the compile pipeline kills the worker and is reported by the supervisor as an abort
    let handle = std::thread::Builder::new()
        .stack_size(std::env::var("GVERIF_STACK_MB").ok().and_then(|v| v.parse::<usize>().ok()).unwrap_or(256) << 20)
        .spawn(move || {
            let mut out = out.lock();
            for (i, line) in reader.lines().enumerate() {
                if i < from {
                    continue;
                }
                if i >= to {
                    break;
                }
                let line = line.unwrap();
                let case: Value = match serde_json::from_str(&line) {
                    Ok(v) => v,
                    Err(e) => json!({"bad_case": e.to_string()}),
                };
                let obs = match guarded(|| dispatch(&sub, &case, &extra)) {
                    Ok(v) => v,
                    Err(m) => json!({"case": i, "outcome": "harness_panic", "msg": m}),
                };
                let mut obs = obs;
                if let Some(o) = obs.as_object_mut() {
                    o.insert("case".into(), json!(i));
                }
                writeln!(out, "{}", serde_json::to_string(&obs).unwrap()).unwrap();
                out.flush().unwrap();
            }
        })
        .unwrap();
    handle.join().unwrap();
}

fn dispatch(sub: &str, case: &Value, extra: &[String]) -> Value {
    match sub {
        "lex" => compile::lex_case(case),
        "parse" => compile::parse_case(case),
        "compile" => compile::compile_case(case),
        "run" => run::run_case(case, extra),
        "num" => num::num_case(case),
        "op" => op::op_case(case),
        "eq" => op::eq_case(case),
        "lit" => run::lit_case(case),
        "list" => lists::list_case(case),
        "store" => storecmd::store_case(case),
        "opt" => opt::opt_case(case),
        "multi" => multi::multi_case(case),
        "layout" => layout::layout_case(case),
        "tables" => compile::tables_case(case),
        _ => json!({"error": format!("unknown subcommand {}", sub)}),
    }
}
