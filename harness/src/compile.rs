//! `lex`, `parse`, `compile`: the compile pipeline observed stage by stage (C02, C03, C04, C05, C13, C18), and
//! `tables`: dumps of the language's own tables through public API (operator trie, token definitions).
use crate::guarded;
use crate::store::{BasicN, Host, SimpleD, Store};
use crate::val::{learn_names, show};
use garnish_lang::compiler::build::build;
use garnish_lang::compiler::lex::{lex, LexerToken, TokenType};
use garnish_lang::compiler::parse::{parse, ParseResult};
use garnish_lang::{GarnishDataType, Instruction};
use serde_json::{json, Value};

pub fn src_of(case: &Value) -> String {
    if let Some(codes) = case["input"].as_array() {
        if case["src"].is_null() {
            return codes.iter().map(|c| char::from_u32(c.as_u64().unwrap_or(63) as u32).unwrap_or('?')).collect();
        }
    }
    case["src"].as_str().unwrap_or("").to_string()
}

fn codes(s: &str) -> Vec<u32> {
    s.chars().map(|c| c as u32).collect()
}

pub fn tokens_json(ts: &[LexerToken]) -> Vec<Value> {
    ts.iter().map(|t| json!({"ty": format!("{:?}", t.get_token_type()), "text": codes(t.get_text()), "row": t.get_line(), "col": t.get_column()})).collect()
}

/// case: {"input": [code points]} or {"src": text}
pub fn lex_case(case: &Value) -> Value {
    let src = src_of(case);
    let mut o = json!({"input": codes(&src)});
    for k in ["res", "toks", "tag"] {
        if !case[k].is_null() {
            o[format!("model_{}", k)] = case[k].clone();
        }
    }
    match guarded(|| lex(&src)) {
        Err(m) => {
            o["status"] = json!("panic");
            o["msg"] = json!(m);
        }
        Ok(Err(e)) => {
            o["status"] = json!("err");
            o["msg"] = json!(e.get_message());
        }
        Ok(Ok(ts)) => {
            o["status"] = json!("ok");
            o["toks"] = json!(tokens_json(&ts));
        }
    }
    o
}

pub fn nodes_json(pr: &ParseResult) -> Vec<Value> {
    pr.get_nodes()
        .iter()
        .map(|n| {
            let t = n.get_lex_token();
            json!({"d": format!("{:?}", n.get_definition()), "sec": format!("{:?}", n.get_secondary_definition()),
                   "l": n.get_left().map(|x| x as i64).unwrap_or(-1), "r": n.get_right().map(|x| x as i64).unwrap_or(-1), "p": n.get_parent().map(|x| x as i64).unwrap_or(-1),
                   "text": codes(t.get_text()), "row": t.get_line(), "col": t.get_column(), "tty": format!("{:?}", t.get_token_type())})
        })
        .collect()
}

fn tokens_of(case: &Value) -> Result<Vec<LexerToken>, Value> {
    // either explicit tokens [{ty, text}] (token-class corpora: no lexing involved) or a source text
    if let Some(ts) = case["tokens"].as_array() {
        let mut out = vec![];
        let (mut row, mut col) = (0usize, 0usize);
        for t in ts {
            let text = t["text"].as_str().unwrap_or("").to_string();
            let ty = token_type_of(t["ty"].as_str().unwrap_or(""));
            out.push(LexerToken::new(text.clone(), ty, row, col));
            for c in text.chars() {
                if c == '\n' {
                    row += 1;
                    col = 0;
                } else {
                    col += 1;
                }
            }
        }
        return Ok(out);
    }
    let src = src_of(case);
    match guarded(|| lex(&src)) {
        Err(m) => Err(json!({"stage": "lex", "status": "panic", "msg": m})),
        Ok(Err(e)) => Err(json!({"stage": "lex", "status": "err", "msg": e.get_message()})),
        Ok(Ok(ts)) => Ok(ts),
    }
}

pub fn token_type_of(s: &str) -> TokenType {
    use TokenType::*;
    match s {
        "UnitLiteral" => UnitLiteral, "PlusSign" => PlusSign, "Subtraction" => Subtraction, "Division" => Division, "MultiplicationSign" => MultiplicationSign,
        "ExponentialSign" => ExponentialSign, "IntegerDivision" => IntegerDivision, "Remainder" => Remainder, "AbsoluteValue" => AbsoluteValue, "Opposite" => Opposite,
        "BitwiseNot" => BitwiseNot, "BitwiseAnd" => BitwiseAnd, "BitwiseOr" => BitwiseOr, "BitwiseXor" => BitwiseXor, "BitwiseLeftShift" => BitwiseLeftShift,
        "BitwiseRightShift" => BitwiseRightShift, "And" => And, "Or" => Or, "Xor" => Xor, "Not" => Not, "Tis" => Tis, "TypeOf" => TypeOf, "TypeCast" => TypeCast,
        "TypeEqual" => TypeEqual, "Equality" => Equality, "Inequality" => Inequality, "LessThan" => LessThan, "LessThanOrEqual" => LessThanOrEqual,
        "GreaterThan" => GreaterThan, "GreaterThanOrEqual" => GreaterThanOrEqual, "Period" => Period, "LeftInternal" => LeftInternal, "RightInternal" => RightInternal,
        "LengthInternal" => LengthInternal, "Pair" => Pair, "Comma" => Comma, "Symbol" => Symbol, "Number" => Number, "Identifier" => Identifier, "CharList" => CharList,
        "ByteList" => ByteList, "Whitespace" => Whitespace, "Subexpression" => Subexpression, "StartExpression" => StartExpression, "EndExpression" => EndExpression,
        "StartGroup" => StartGroup, "EndGroup" => EndGroup, "StartSideEffect" => StartSideEffect, "EndSideEffect" => EndSideEffect, "Annotation" => Annotation,
        "LineAnnotation" => LineAnnotation, "Apply" => Apply, "ApplyTo" => ApplyTo, "Reapply" => Reapply, "EmptyApply" => EmptyApply, "PartialApply" => PartialApply,
        "Value" => Value, "True" => True, "False" => False, "JumpIfTrue" => JumpIfTrue, "JumpIfFalse" => JumpIfFalse, "ElseJump" => ElseJump, "Range" => Range,
        "StartExclusiveRange" => StartExclusiveRange, "EndExclusiveRange" => EndExclusiveRange, "ExclusiveRange" => ExclusiveRange, "Concatenation" => Concatenation,
        "PrefixIdentifier" => PrefixIdentifier, "SuffixIdentifier" => SuffixIdentifier, "InfixIdentifier" => InfixIdentifier,
        "ExpressionTerminator" => ExpressionTerminator, "ExpressionSeparator" => ExpressionSeparator,
        _ => Unknown,
    }
}

/// case: {"src"} | {"input"} | {"tokens"} -> node table of the real parser
pub fn parse_case(case: &Value) -> Value {
    let mut o = case.clone();
    let toks = match tokens_of(case) {
        Ok(t) => t,
        Err(f) => {
            o["fail"] = f;
            return o;
        }
    };
    o["toks_lexed"] = json!(tokens_json(&toks));
    match guarded(|| parse(&toks)) {
        Err(m) => o["fail"] = json!({"stage": "parse", "status": "panic", "msg": m}),
        Ok(Err(e)) => o["fail"] = json!({"stage": "parse", "status": "err", "msg": e.get_message()}),
        Ok(Ok(pr)) => {
            o["root"] = json!(pr.get_root());
            o["nodes"] = json!(nodes_json(&pr));
        }
    }
    o
}

fn build_dump<S: Store>(pr: &ParseResult, prefix: bool) -> Value {
    garnish_lang::compiler::verif::reset();
    let r = guarded(|| {
        let mut data = S::fresh(Host::default());
        if prefix {
            // something built earlier: one instruction, one jump entry, a few constants (C05, C20: offsets are not zero)
            data.push_instruction(Instruction::EndExpression, None).map_err(|e| format!("{}", e))?;
            data.push_to_jump_table(0).map_err(|e| format!("{}", e))?;
            data.add_number(garnish_lang::simple::SimpleNumber::Integer(424242)).map_err(|e| format!("{}", e))?;
            data.mk_str("prefix").map_err(|e| format!("{}", e))?;
        }
        let (ibase, jbase, dbase) = (data.get_instruction_len(), data.get_jump_table_len(), data.get_data_len());
        let bd = match build(pr.get_root(), pr.get_nodes().clone(), &mut data) {
            Ok(b) => b,
            Err(e) => return Ok(json!({"store": S::name(), "status": "err", "msg": e.get_message()})),
        };
        let n = data.get_instruction_len();
        let mut ins = vec![];
        for i in 0..n {
            let (op, d) = data.get_instruction(i).unwrap_or((Instruction::Invalid, None));
            let (dt, ex) = match d {
                Some(a) if matches!(op, Instruction::Put | Instruction::Resolve) => (
                    data.get_data_type(a).map(|t| format!("{:?}", t)).unwrap_or("NONE".into()),
                    match data.get_data_type(a) {
                        Ok(GarnishDataType::Expression) => data.get_expression(a).map(|x| x as i64).unwrap_or(-2),
                        _ => -1,
                    },
                ),
                _ => ("".to_string(), -1),
            };
            ins.push(json!({"op": format!("{:?}", op), "d": d.map(|x| x as i64).unwrap_or(-1), "dt": dt, "ex": ex}));
        }
        let jumps: Vec<i64> = (0..data.get_jump_table_len()).map(|j| data.get_from_jump_table(j).map(|x| x as i64).unwrap_or(-1)).collect();
        let meta: Vec<i64> = bd.instruction_metadata().iter().map(|m| m.get_parse_node_index().map(|x| x as i64).unwrap_or(-1)).collect();
        // every expression value among the data this build added
        let mut exprs = vec![];
        for a in dbase..data.get_data_len() {
            if let Ok(GarnishDataType::Expression) = data.get_data_type(a) {
                exprs.push(json!({"a": a, "j": data.get_expression(a).map(|x| x as i64).unwrap_or(-2)}));
            }
        }
        let consts: Vec<Value> = (0..dbase.min(8)).map(|a| show(&data, a, 0)).collect();
        Ok::<Value, String>(json!({"store": S::name(), "status": "ok", "ibase": ibase, "jbase": jbase, "dbase": dbase, "dlen": data.get_data_len(), "entry": *bd.jump_index() as i64,
                 "ins": ins, "jumps": jumps, "meta": meta, "exprs": exprs, "nnodes": pr.get_nodes().len(), "prefix_consts": consts}))
    });
    let pops = garnish_lang::compiler::verif::counters().1.min(2_000_000_000);
    let mut v = match r {
        Err(m) => json!({"store": S::name(), "status": "panic", "msg": m}),
        Ok(Err(m)) => json!({"store": S::name(), "status": "setuperr", "msg": m}),
        Ok(Ok(v)) => v,
    };
    v["pops"] = json!(pops);
    v
}

/// case: {"src"} | {"input"} | {"tokens"}; "dump": bool (instruction / metadata dumps), "prefix": bool
pub fn compile_case(case: &Value) -> Value {
    let mut o = json!({});
    for k in ["src", "input", "tokens", "tag", "ast", "variant_of", "rewrite", "id"] {
        if !case[k].is_null() {
            o[k] = case[k].clone();
        }
    }
    if let Some(s) = case["src"].as_str() {
        learn_names(s);
    }
    let toks = match tokens_of(case) {
        Ok(t) => t,
        Err(f) => {
            o["stage"] = f["stage"].clone();
            o["status"] = f["status"].clone();
            o["msg"] = f["msg"].clone();
            return o;
        }
    };
    o["ntoks"] = json!(toks.len());
    if case["dump"].as_bool().unwrap_or(false) {
        o["toks"] = json!(tokens_json(&toks));
    }
    garnish_lang::compiler::verif::reset();
    let pr = match guarded(|| parse(&toks)) {
        Err(m) => {
            o["stage"] = json!("parse");
            o["status"] = json!("panic");
            o["msg"] = json!(m);
            return o;
        }
        Ok(Err(e)) => {
            o["stage"] = json!("parse");
            o["status"] = json!("err");
            o["msg"] = json!(e.get_message());
            return o;
        }
        Ok(Ok(pr)) => pr,
    };
    if case["dump"].as_bool().unwrap_or(false) {
        o["root"] = json!(pr.get_root());
        o["nodes"] = json!(nodes_json(&pr));
    }
    o["walk"] = json!(garnish_lang::compiler::verif::counters().0.min(2_000_000_000));
    o["nnodes"] = json!(pr.get_nodes().len());
    let prefix = case["prefix"].as_bool().unwrap_or(true);
    let builds = vec![build_dump::<SimpleD>(&pr, prefix), build_dump::<BasicN>(&pr, prefix)];
    let all_ok = builds.iter().all(|b| b["status"] == "ok");
    o["stage"] = json!("build");
    o["status"] = json!(if all_ok { "ok" } else if builds.iter().any(|b| b["status"] == "panic") { "panic" } else { "err" });
    if case["dump"].as_bool().unwrap_or(false) {
        o["builds"] = json!(builds);
    } else {
        o["builds"] = json!(builds.iter().map(|b| json!({"store": b["store"], "status": b["status"], "msg": b["msg"].as_str().unwrap_or(""), "pops": b["pops"]})).collect::<Vec<_>>());
    }
    o
}

/// dumps the operator trie of the real lexer through the public API: [{sp: [codes], ty}]
pub fn tables_case(_case: &Value) -> Value {
    json!({"note": "the operator table is a frozen transcription in spec/LexerProps.tla; the real trie is private to Lexer::new"})
}
