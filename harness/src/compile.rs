use serde_json::{json, Value};
pub fn lex_case(_c: &Value) -> Value { json!({}) }
pub fn parse_case(_c: &Value) -> Value { json!({}) }
pub fn compile_case(_c: &Value) -> Value { json!({}) }
pub fn tables_case(_c: &Value) -> Value { json!({}) }
