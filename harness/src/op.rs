//! `op`: one instruction on operands placed through the data API, with a scripted host (C08, C10 truth table).
//! `eq`: result matrices of comparison instructions over a set of values (C11, C12).
use crate::guarded;
use crate::num::instruction_of;
use crate::store::{BasicD, BasicN, Host, SimpleD, Store};
use crate::val::{make, show};
use garnish_lang::simple::execute_current_instruction;
use serde_json::{json, Value};

fn op_on<S: Store>(case: &Value) -> Value {
    let ins_name = case["ins"].as_str().unwrap_or("");
    let ins = match instruction_of(ins_name) {
        Some(i) => i,
        None => return json!({"store": S::name(), "status": "na"}),
    };
    let r = guarded(|| {
        let mut d = S::fresh(Host::from_json(&case["host"]));
        let e = |x: garnish_lang::simple::DataError| format!("{}", x);
        // a jump target for instructions that carry one, and a harmless body behind it
        d.push_instruction(garnish_lang::Instruction::EndExpression, None).map_err(e)?;
        d.push_to_jump_table(0).map_err(e)?;
        let operand = if case["d"].is_null() { None } else { Some(case["d"].as_u64().unwrap_or(0) as usize) };
        let sentinel = d.add_number(garnish_lang::simple::SimpleNumber::Integer(7777)).map_err(e)?;
        let u = d.add_unit().map_err(e)?;
        // via = "clone": the operands are placed and the instruction is executed in a working copy of the configured store
        if case["via"].as_str() == Some("clone") {
            match d.working_copy() {
                Some(Ok(c)) => d = c,
                Some(Err(m)) => return Err(format!("working copy: {}", m)),
                None => return Ok(json!({"store": S::name(), "status": "na"})),
            }
        }
        d.push_value_stack(u).map_err(e)?;
        d.push_register(sentinel).map_err(e)?;
        let mut built = vec![];
        for k in ["l", "r"] {
            if !case[k].is_null() {
                let a = make(&mut d, &case[k])?;
                built.push(a);
            }
        }
        let i = d.push_instruction(ins, operand).map_err(e)?;
        // something to continue with: the runtime only moves the cursor when a next instruction exists
        d.push_instruction(garnish_lang::Instruction::EndExpression, None).map_err(e)?;
        for a in &built {
            d.push_register(*a).map_err(e)?;
        }
        d.set_instruction_cursor(i).map_err(e)?;
        let before = d.reg_addrs().len();
        let res = execute_current_instruction(&mut d);
        let log = d.host().map(|h| h.log_json()).unwrap_or_default();
        match res {
            Err(x) => Ok::<Value, String>(json!({"store": S::name(), "status": "err", "msg": format!("{} | {:?}", x.get_message(), std::error::Error::source(&x).map(|s| s.to_string().lines().next().unwrap_or("").to_string())), "log": log, "before": before})),
            Ok(_) => {
                let regs: Vec<Value> = d.reg_addrs().iter().map(|a| show(&d, *a, 0)).collect();
                Ok(json!({"store": S::name(), "status": "ok", "regs": regs, "before": before, "log": log, "next": d.get_instruction_cursor(), "at": i,
                          "vals": d.val_addrs().len(), "frames": d.frame_rets().len()}))
            }
        }
    });
    match r {
        Err(m) => json!({"store": S::name(), "status": "panic", "msg": m}),
        Ok(Err(m)) => json!({"store": S::name(), "status": "setuperr", "msg": m}),
        Ok(Ok(v)) => v,
    }
}

/// case: {"ins", "l": desc?, "r": desc?, "d": operand?, "host": null | {"defer": null|desc, ...}}
pub fn op_case(case: &Value) -> Value {
    let mut runs = vec![op_on::<SimpleD>(case)];
    if case["host"].is_null() {
        runs.push(op_on::<BasicN>(case));
    } else {
        runs.push(op_on::<BasicD>(case));
    }
    let mut o = case.clone();
    o["runs"] = json!(runs);
    o
}

fn code(v: &Value) -> char {
    match v["t"].as_str() {
        Some("true") => 'T',
        Some("false") => 'F',
        Some("unit") => 'U',
        _ => 'O',
    }
}

fn matrix_on<S: Store>(case: &Value) -> Value {
    let vals = case["vals"].as_array().cloned().unwrap_or_default();
    let rows: Vec<usize> = match case["rows"].as_array() {
        Some(r) => r.iter().map(|x| x.as_u64().unwrap_or(0) as usize).collect(),
        None => (0..vals.len()).collect(),
    };
    let names: Vec<String> = case["ins"].as_array().map(|a| a.iter().map(|x| x.as_str().unwrap_or("").to_string()).collect()).unwrap_or_default();
    let r = guarded(|| {
        let mut d = S::fresh(Host::default());
        let e = |x: garnish_lang::simple::DataError| format!("{}", x);
        let u = d.add_unit().map_err(e)?;
        d.push_value_stack(u).map_err(e)?;
        // set A in order, set B in reverse creation order (equal values at different addresses)
        let mut a_addr = vec![];
        for v in &vals {
            a_addr.push(make(&mut d, v)?);
        }
        let mut b_addr = vec![0usize; vals.len()];
        for (i, v) in vals.iter().enumerate().rev() {
            // identical sub-values inside one value share an address in set B
            let mut cache = std::collections::HashMap::new();
            b_addr[i] = crate::val::make_shared(&mut d, v, &mut cache)?;
        }
        let mut ins_at = vec![];
        for n in &names {
            let ins = instruction_of(n).ok_or_else(|| format!("unknown instruction {}", n))?;
            ins_at.push(d.push_instruction(ins, None).map_err(e)?);
        }
        let sentinel = d.add_number(garnish_lang::simple::SimpleNumber::Integer(7777)).map_err(e)?;
        d.push_register(sentinel).map_err(e)?;
        let mut out = serde_json::Map::new();
        let mut depth_bad: Vec<Value> = vec![];
        for (k, n) in names.iter().enumerate() {
            let mut ab = vec![];
            let mut aa = vec![];
            for &i in &rows {
                let mut row_ab: Vec<String> = vec![];
                let mut row_aa: Vec<String> = vec![];
                for j in 0..vals.len() {
                    for (which, other) in [(0, b_addr[j]), (1, a_addr[j])] {
                        d.push_register(a_addr[i]).map_err(e)?;
                        d.push_register(other).map_err(e)?;
                        d.set_instruction_cursor(ins_at[k]).map_err(e)?;
                        let c = match guarded(|| execute_current_instruction(&mut d)) {
                            Err(_) => 'P',
                            Ok(Err(_)) => 'E',
                            Ok(Ok(_)) => {
                                let regs = d.reg_addrs();
                                if regs.len() != 2 {
                                    depth_bad.push(json!({"ins": n, "i": i, "j": j, "which": which, "depth": regs.len()}));
                                    'D'
                                } else {
                                    code(&show(&d, regs[1], 0))
                                }
                            }
                        };
                        // restore the register stack to just the sentinel
                        while d.reg_addrs().len() > 1 {
                            if d.pop_register().is_err() {
                                break;
                            }
                        }
                        if d.reg_addrs().is_empty() {
                            d.push_register(sentinel).map_err(e)?;
                        }
                        if which == 0 { row_ab.push(c.to_string()) } else { row_aa.push(c.to_string()) }
                    }
                }
                ab.push(json!(row_ab));
                aa.push(json!(row_aa));
            }
            out.insert(n.clone(), json!({"ab": ab, "aa": aa}));
        }
        out.insert("depth_bad".into(), json!(depth_bad));
        Ok::<Value, String>(Value::Object(out))
    });
    match r {
        Err(m) => json!({"status": "panic", "msg": m}),
        Ok(Err(m)) => json!({"status": "setuperr", "msg": m}),
        Ok(Ok(mut v)) => {
            v["status"] = json!("ok");
            v
        }
    }
}

/// case: {"ins": [names], "vals": [descs], "rows": [indexes]?}
pub fn eq_case(case: &Value) -> Value {
    let mut o = case.clone();
    o["simple"] = matrix_on::<SimpleD>(case);
    o["basic"] = matrix_on::<BasicN>(case);
    o
}
