use serde_json::{json, Value};
pub fn store_case(_c: &Value) -> Value { json!({}) }
