//! `store` (C15): a history of add / push operations over all tables of a data object (data, instructions,
//! jump table, symbol table, registers, input values, frames), on SimpleGarnishData and on BasicGarnishData with the
//! given growth settings; after EVERY operation every address returned so far is read back.
//!
//! case: {"settings": null | {"ins":[init,"add"|"mul",k], "jmp":.., "sym":.., "expr":.., "data":.., "custom":..},
//!        "ops":[{"op":"val","d":desc-with-{"t":"ref","i":k}} | {"op":"ins","i":"Add","d":n|null} | {"op":"jump","v":n}
//!               | {"op":"symname","n":"abc"} | {"op":"reg","i":k} | {"op":"popreg"} | {"op":"pushval","i":k} | {"op":"popval"}
//!               | {"op":"frame","v":n} | {"op":"popframe"}]}
use crate::guarded;
use crate::num::instruction_of;
use crate::store::{BasicN, Host, SimpleD, Store};
use crate::val::{make, show};
use garnish_lang::simple::{NoOpCompanion, ReallocationStrategy, StorageSettings};
use serde_json::{json, Value};

fn e<E: std::fmt::Display>(x: E) -> String {
    crate::run::msg_key(&format!("{}", x))
}

fn make_ref<S: Store>(d: &mut S, v: &Value, vals: &[usize]) -> Result<usize, String> {
    let t = v["t"].as_str().unwrap_or("");
    match t {
        "ref" => vals.get(v["i"].as_u64().unwrap_or(u64::MAX) as usize).cloned().ok_or_else(|| format!("unknown value index {}", v["i"])),
        "pair" | "concat" | "range" | "slice" | "partial" => {
            let l = make_ref(d, &v["l"], vals)?;
            let r = make_ref(d, &v["r"], vals)?;
            match t {
                "pair" => d.add_pair((l, r)),
                "concat" => d.add_concatenation(l, r),
                "range" => d.add_range(l, r),
                "slice" => d.add_slice(l, r),
                _ => d.add_partial(l, r),
            }
            .map_err(e)
        }
        "list" => {
            let mut addrs = vec![];
            for it in v["v"].as_array().cloned().unwrap_or_default() {
                addrs.push(make_ref(d, &it, vals)?);
            }
            let mut l = d.start_list(addrs.len()).map_err(e)?;
            for a in addrs {
                l = d.add_to_list(l, a).map_err(e)?;
            }
            d.end_list(l).map_err(e)
        }
        _ => make(d, v),
    }
}

fn settings_of(v: &Value) -> StorageSettings {
    let init = v[0].as_u64().unwrap_or(10) as usize;
    let k = v[2].as_u64().unwrap_or(10) as usize;
    let strat = if v[1].as_str() == Some("mul") { ReallocationStrategy::Multiplicative(k) } else { ReallocationStrategy::FixedSize(k) };
    StorageSettings::new(init, usize::MAX, strat)
}

fn history<S: Store>(mut d: S, case: &Value) -> Value {
    let ops = case["ops"].as_array().cloned().unwrap_or_default();
    let mut vals: Vec<usize> = vec![]; // address of every value added, by value index
    let mut ins: Vec<usize> = vec![];
    let mut jumps: Vec<usize> = vec![];
    let mut names: Vec<String> = vec![];
    let mut events = vec![];
    for op in ops.iter() {
        let name = op["op"].as_str().unwrap_or("");
        let r = guarded(|| -> Result<i64, String> {
            match name {
                "val" => {
                    let a = make_ref(&mut d, &op["d"], &vals)?;
                    vals.push(a);
                    Ok(a as i64)
                }
                "ins" => {
                    let i = instruction_of(op["i"].as_str().unwrap_or("")).ok_or("unknown instruction")?;
                    let a = d.push_instruction(i, op["d"].as_u64().map(|x| x as usize)).map_err(e)?;
                    ins.push(a);
                    Ok(a as i64)
                }
                "jump" => {
                    let a = d.get_jump_table_len();
                    d.push_to_jump_table(op["v"].as_u64().unwrap_or(0) as usize).map_err(e)?;
                    jumps.push(a);
                    Ok(a as i64)
                }
                "symname" => {
                    let n = op["n"].as_str().unwrap_or("x").to_string();
                    crate::val::sym_of_name(&n);
                    let a = d.parse_add_symbol(&n).map_err(e)?;
                    vals.push(a);
                    names.push(n);
                    Ok(a as i64)
                }
                "reg" => {
                    let a = *vals.get(op["i"].as_u64().unwrap_or(u64::MAX) as usize).ok_or("unknown value index")?;
                    d.push_register(a).map_err(e)?;
                    Ok(-1)
                }
                "popreg" => Ok(d.pop_register().map_err(e)?.map(|x| x as i64).unwrap_or(-1)),
                "pushval" => {
                    let a = *vals.get(op["i"].as_u64().unwrap_or(u64::MAX) as usize).ok_or("unknown value index")?;
                    d.push_value_stack(a).map_err(e)?;
                    Ok(-1)
                }
                "popval" => Ok(d.pop_value_stack().map(|x| x as i64).unwrap_or(-1)),
                "frame" => {
                    d.push_frame(op["v"].as_u64().unwrap_or(0) as usize).map_err(e)?;
                    Ok(-1)
                }
                "popframe" => Ok(d.pop_frame().map_err(e)?.map(|x| x as i64).unwrap_or(-1)),
                _ => Err(format!("unknown op {}", name)),
            }
        });
        let mut ev = json!({"op": name});
        match r {
            Err(m) => {
                ev["status"] = json!("panic");
                ev["msgk"] = json!(m);
                events.push(ev);
                break;
            }
            Ok(Err(m)) => {
                ev["status"] = json!("err");
                ev["msgk"] = json!(m);
                events.push(ev);
                break;
            }
            Ok(Ok(ret)) => {
                ev["status"] = json!("ok");
                ev["ret"] = json!(ret);
            }
        }
        // read back every address returned so far, through the interface only
        let rb = guarded(|| {
            json!({
                "addrs": vals.iter().map(|a| *a as i64).collect::<Vec<_>>(),
                "vals": vals.iter().map(|a| show(&d, *a, 0)).collect::<Vec<_>>(),
                "ins": ins.iter().map(|a| match d.get_instruction(*a) { Some((i, x)) => json!({"i": format!("{:?}", i), "d": x.map(|y| y as i64).unwrap_or(-1)}), None => json!({"i": "NONE", "d": -1}) }).collect::<Vec<_>>(),
                "jumps": jumps.iter().map(|a| d.get_from_jump_table(*a).map(|x| x as i64).unwrap_or(-1)).collect::<Vec<_>>(),
                "regs": d.reg_addrs().iter().map(|a| *a as i64).collect::<Vec<_>>(),
                "stack": d.val_addrs().iter().map(|a| *a as i64).collect::<Vec<_>>(),
                "frames": d.frame_rets().iter().map(|a| *a as i64).collect::<Vec<_>>(),
                "names": names.iter().map(|n| match d.sym_name(garnish_lang::simple::symbol_value(n)) { Some(x) => if &x == n { "same" } else { "other" }, None => "gone" }).collect::<Vec<_>>(),
                "ilen": d.get_instruction_len(), "jlen": d.get_jump_table_len(),
            })
        });
        match rb {
            Ok(v) => ev["rb"] = v,
            Err(m) => {
                ev["status"] = json!("readback-panic");
                ev["msgk"] = json!(m);
                events.push(ev);
                break;
            }
        }
        events.push(ev);
    }
    json!({"store": S::name(), "events": events})
}

pub fn store_case(case: &Value) -> Value {
    let mut o = case.clone();
    let mut runs = vec![];
    if case["settings"].is_null() {
        runs.push(match guarded(|| history(SimpleD::fresh(Host::default()), case)) {
            Ok(v) => v,
            Err(m) => json!({"store": "simple", "status": "panic", "msgk": m, "events": []}),
        });
    }
    let basic = guarded(|| {
        let d = if case["settings"].is_null() {
            BasicN::fresh(Host::default())
        } else {
            let s = &case["settings"];
            BasicN::new_with_settings(settings_of(&s["ins"]), settings_of(&s["jmp"]), settings_of(&s["sym"]), settings_of(&s["expr"]), settings_of(&s["data"]), settings_of(&s["custom"]), NoOpCompanion::new())
                .map_err(|x| format!("{}", x))?
        };
        Ok::<Value, String>(history(d, case))
    });
    runs.push(match basic {
        Ok(Ok(v)) => v,
        Ok(Err(m)) => json!({"store": "basic", "status": "newerr", "msgk": crate::run::msg_key(&m), "events": []}),
        Err(m) => json!({"store": "basic", "status": "panic", "msgk": m, "events": []}),
    });
    o["runs"] = json!(runs);
    o
}
