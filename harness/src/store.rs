//! The two shipped data implementations behind one harness-side trait, plus the scripted host.
use garnish_lang::simple::{BasicDataCompanion, BasicGarnishData, DataError, NoCustom, NoOpCompanion, SimpleData, SimpleGarnishData, SimpleNumber};
use garnish_lang::{GarnishData, GarnishDataType, Instruction};
use serde_json::{json, Value};

/// Scripted host.  All scripts and log entries are JSON text so that the type satisfies the
/// `Eq + PartialOrd` bounds a Basic companion needs.
#[derive(Default, Clone, Debug, PartialEq, Eq, PartialOrd)]
pub struct Host {
    /// symbol value -> JSON value descriptor to produce; symbols not listed are declined
    pub resolve: Vec<(u64, String)>,
    /// external number -> JSON descriptor ("arg" = echo the argument); others declined
    pub apply: Vec<(usize, String)>,
    /// "" = decline every deferred op; otherwise JSON descriptor of the value to answer with
    pub defer_value: String,
    pub log: Vec<String>,
    /// false: callbacks behave exactly like the defaults (decline, no log)
    pub active: bool,
}

impl Host {
    pub fn from_json(v: &Value) -> Host {
        let mut h = Host::default();
        if v.is_null() {
            return h;
        }
        h.active = true;
        if let Some(m) = v.get("resolve").and_then(|x| x.as_array()) {
            for e in m {
                let name = e["key"].as_str().unwrap_or("");
                let sym = crate::val::sym_of_name(name);
                h.resolve.push((sym, e["value"].to_string()));
            }
        }
        if let Some(m) = v.get("apply").and_then(|x| x.as_array()) {
            for e in m {
                h.apply.push((e["key"].as_u64().unwrap_or(0) as usize, e["value"].to_string()));
            }
        }
        if let Some(d) = v.get("defer") {
            if !d.is_null() {
                h.defer_value = d.to_string();
            }
        }
        h
    }
    pub fn log_json(&self) -> Vec<Value> {
        self.log.iter().map(|s| serde_json::from_str(s).unwrap_or(Value::Null)).collect()
    }
}

pub trait Store: GarnishData<Size = usize, Number = SimpleNumber, Char = char, Byte = u8, Symbol = u64, Error = DataError> + Sized {
    fn name() -> &'static str;
    fn fresh(host: Host) -> Self;
    /// operand stack addresses, bottom first (frame records filtered out)
    fn reg_addrs(&self) -> Vec<usize>;
    /// input-value stack addresses, bottom first
    fn val_addrs(&self) -> Vec<usize>;
    /// return addresses of active frames, outermost first
    fn frame_rets(&self) -> Vec<usize>;
    fn host(&self) -> Option<&Host>;
    fn host_mut(&mut self) -> Option<&mut Host>;
    fn mk_str(&mut self, s: &str) -> Result<usize, DataError>;
    fn mk_bytes(&mut self, b: &[u8]) -> Result<usize, DataError>;
    fn sym_name(&self, sym: u64) -> Option<String>;
    fn is_basic() -> bool {
        false
    }
    fn compact(&mut self, _roots: &[usize]) -> Option<Result<Vec<usize>, String>> {
        None
    }
    /// mark everything stored so far (program constants, the input value) as not collectable
    fn retain_now(&mut self) {}
    /// what a host that compiles once and serves every request from a copy does: everything stored so far becomes
    /// constant data and a working copy is taken (None: the store has no such operation)
    fn working_copy(&mut self) -> Option<Result<Self, String>> {
        None
    }
}

// ---- scripted callbacks, shared by both stores

fn host_resolve<S: Store>(data: &mut S, symbol: u64) -> Result<bool, DataError> {
    let (active, script) = match data.host() {
        Some(h) => (h.active, h.resolve.iter().find(|(s, _)| *s == symbol).map(|(_, v)| v.clone())),
        None => (false, None),
    };
    if !active {
        return Ok(false);
    }
    let entry = json!({"cb": "resolve", "sym": crate::val::sym_label(data, symbol), "answered": script.is_some()});
    data.host_mut().unwrap().log.push(entry.to_string());
    match script {
        None => Ok(false),
        Some(js) => {
            let d: Value = serde_json::from_str(&js).unwrap();
            let a = crate::val::make(data, &d).map_err(|e| DataError::from(e))?;
            data.push_register(a)?;
            Ok(true)
        }
    }
}

fn host_apply<S: Store>(data: &mut S, external: usize, input: usize) -> Result<bool, DataError> {
    // `external` is the external's number (the runtime unwraps it before calling)
    let (active, script) = match data.host() {
        Some(h) => (h.active, h.apply.iter().find(|(s, _)| *s == external).map(|(_, v)| v.clone())),
        None => (false, None),
    };
    if !active {
        return Ok(false);
    }
    let entry = json!({"cb": "apply", "ext": external as i64, "arg": crate::val::show(data, input, 0), "answered": script.is_some()});
    data.host_mut().unwrap().log.push(entry.to_string());
    match script {
        None => Ok(false),
        Some(js) => {
            let d: Value = serde_json::from_str(&js).unwrap();
            let a = if d["t"].as_str() == Some("ARG") { input } else { crate::val::make(data, &d).map_err(|e| DataError::from(e))? };
            data.push_register(a)?;
            Ok(true)
        }
    }
}

fn host_defer<S: Store>(data: &mut S, op: Instruction, left: (GarnishDataType, usize), right: (GarnishDataType, usize)) -> Result<bool, DataError> {
    let (active, dv) = match data.host() {
        Some(h) => (h.active, h.defer_value.clone()),
        None => (false, String::new()),
    };
    if !active {
        return Ok(false);
    }
    let entry = json!({"cb": "defer", "op": format!("{:?}", op), "lt": format!("{:?}", left.0), "rt": format!("{:?}", right.0),
        "l": crate::val::show(data, left.1, 0), "r": crate::val::show(data, right.1, 0), "regs": data.get_register_len(), "answered": !dv.is_empty()});
    data.host_mut().unwrap().log.push(entry.to_string());
    if dv.is_empty() {
        return Ok(false);
    }
    let d: Value = serde_json::from_str(&dv).unwrap();
    let a = crate::val::make(data, &d).map_err(|e| DataError::from(e))?;
    data.push_register(a)?;
    Ok(true)
}

// ---- SimpleGarnishData

pub type SimpleD = SimpleGarnishData<NoCustom, Host>;

impl Store for SimpleD {
    fn name() -> &'static str {
        "simple"
    }
    fn fresh(host: Host) -> Self {
        let mut d = SimpleD::new_custom();
        if host.active {
            d.set_resolver(host_resolve::<SimpleD>);
            d.set_op_handler(host_defer::<SimpleD>);
        }
        *d.auxiliary_data_mut() = host;
        d
    }
    fn working_copy(&mut self) -> Option<Result<Self, String>> {
        let n = self.get_data_len();
        if n == 0 {
            return Some(Err("empty store".into()));
        }
        if let Err(e) = self.set_end_of_constant(n - 1) {
            return Some(Err(format!("{}", e)));
        }
        Some(self.clone_with_aux_without_data().map_err(|e| format!("{}", e)))
    }
    fn reg_addrs(&self) -> Vec<usize> {
        self.get_registers().iter().filter(|a| !matches!(self.get_raw_data(**a), Some(SimpleData::StackFrame(_)))).cloned().collect()
    }
    fn val_addrs(&self) -> Vec<usize> {
        (0..self.get_value_stack_len()).filter_map(|i| self.get_value(i)).collect()
    }
    fn frame_rets(&self) -> Vec<usize> {
        self.get_registers().iter().filter_map(|a| match self.get_raw_data(*a) { Some(SimpleData::StackFrame(f)) => Some(f.return_addr()), _ => None }).collect()
    }
    fn host(&self) -> Option<&Host> {
        Some(self.auxiliary_data())
    }
    fn host_mut(&mut self) -> Option<&mut Host> {
        Some(self.auxiliary_data_mut())
    }
    fn mk_str(&mut self, s: &str) -> Result<usize, DataError> {
        self.start_char_list()?;
        for c in s.chars() {
            self.add_to_char_list(c)?;
        }
        self.end_char_list()
    }
    fn mk_bytes(&mut self, b: &[u8]) -> Result<usize, DataError> {
        self.start_byte_list()?;
        for c in b {
            self.add_to_byte_list(*c)?;
        }
        self.end_byte_list()
    }
    fn sym_name(&self, sym: u64) -> Option<String> {
        self.get_symbols().get(&sym).cloned()
    }
}

// ---- BasicGarnishData with the scripted companion

#[derive(Default, Clone, Debug, PartialEq, Eq, PartialOrd)]
pub struct HostC {
    pub host: Host,
}

impl BasicDataCompanion<()> for HostC {
    fn resolve(data: &mut BasicGarnishData<(), Self>, symbol: u64) -> Result<bool, DataError> {
        host_resolve(data, symbol)
    }
    fn apply(data: &mut BasicGarnishData<(), Self>, external_value: usize, input_addr: usize) -> Result<bool, DataError> {
        host_apply(data, external_value, input_addr)
    }
    fn defer_op(data: &mut BasicGarnishData<(), Self>, operation: Instruction, left: (GarnishDataType, usize), right: (GarnishDataType, usize)) -> Result<bool, DataError> {
        host_defer(data, operation, left, right)
    }
}

pub type BasicD = BasicGarnishData<(), HostC>;

macro_rules! basic_common {
    () => {
        fn reg_addrs(&self) -> Vec<usize> {
            (0..self.get_register_len()).filter_map(|i| self.get_register(i)).collect()
        }
        fn val_addrs(&self) -> Vec<usize> {
            self.verif_value_chain()
        }
        fn frame_rets(&self) -> Vec<usize> {
            self.verif_frame_chain()
        }
        fn mk_str(&mut self, s: &str) -> Result<usize, DataError> {
            self.add_string(s)
        }
        fn mk_bytes(&mut self, b: &[u8]) -> Result<usize, DataError> {
            self.add_byte_slice(b)
        }
        fn sym_name(&self, sym: u64) -> Option<String> {
            self.get_symbol_string(sym).ok().flatten()
        }
        fn is_basic() -> bool {
            true
        }
        fn compact(&mut self, roots: &[usize]) -> Option<Result<Vec<usize>, String>> {
            Some(self.optimize(roots).map_err(|e| format!("{}", e)))
        }
        fn retain_now(&mut self) {
            self.retain_all_current_data();
        }
    };
}

impl Store for BasicD {
    fn name() -> &'static str {
        "basic"
    }
    fn fresh(host: Host) -> Self {
        BasicD::new(HostC { host }).unwrap()
    }
    fn host(&self) -> Option<&Host> {
        Some(&self.companion().host)
    }
    fn host_mut(&mut self) -> Option<&mut Host> {
        Some(&mut self.companion_mut().host)
    }
    basic_common!();
}

/// BasicGarnishData exactly as shipped, with the library's own no-op companion ("callback absent").
pub type BasicN = BasicGarnishData<(), NoOpCompanion>;

impl Store for BasicN {
    fn name() -> &'static str {
        "basic"
    }
    fn fresh(_host: Host) -> Self {
        BasicN::new(NoOpCompanion::new()).unwrap()
    }
    fn host(&self) -> Option<&Host> {
        None
    }
    fn host_mut(&mut self) -> Option<&mut Host> {
        None
    }
    basic_common!();
}
