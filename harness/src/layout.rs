//! `layout` (C18): a program text and a rewritten text (MC_Layout) pushed through the real lexer, parser, builder
//! and runtime; per text: significant tokens, node table, and the outcome of a run on each store.
use crate::compile::{nodes_json, tokens_json};
use crate::guarded;
use crate::run::{compile_into, execute, RunOpts};
use crate::store::{BasicN, Host, SimpleD, Store};
use crate::val::{learn_names, make};
use garnish_lang::compiler::lex::{lex, TokenType};
use garnish_lang::compiler::parse::parse;
use serde_json::{json, Value};

fn run_one<S: Store>(src: &str, input: &Value) -> Value {
    let mut data = S::fresh(Host::default());
    let inp = if input.is_null() { data.add_unit().map_err(|e| format!("{}", e)) } else { make(&mut data, input) };
    let inp = match inp {
        Ok(a) => a,
        Err(m) => return json!({"store": S::name(), "status": "inputerr", "msgk": m}),
    };
    let b = match compile_into(src, &mut data) {
        Ok(b) => b,
        Err(f) => {
            let mut o = f.json();
            o["store"] = json!(S::name());
            o["msgk"] = json!("");
            return o;
        }
    };
    let mut out = serde_json::Map::new();
    execute(&mut data, b.start, inp, &RunOpts { trace: false, inject: false, max_steps: 2000 }, &mut out);
    let mut o = json!({"store": S::name(), "status": out.get("status").cloned().unwrap_or(json!("none")), "msgk": out.get("msgk").cloned().unwrap_or(json!(""))});
    if let Some(v) = out.get("value") {
        o["value"] = v.clone();
    }
    o
}

fn observe(src: &str, input: &Value) -> Value {
    let mut o = json!({"src": src});
    let toks = match guarded(|| lex(src)) {
        Err(m) => {
            o["stage"] = json!("lex");
            o["status"] = json!("panic");
            o["msg"] = json!(m);
            return o;
        }
        Ok(Err(e)) => {
            o["stage"] = json!("lex");
            o["status"] = json!("err");
            o["msg"] = json!(e.get_message());
            return o;
        }
        Ok(Ok(t)) => t,
    };
    let sig: Vec<_> = toks.iter().filter(|t| !matches!(t.get_token_type(), TokenType::Whitespace | TokenType::Annotation | TokenType::LineAnnotation | TokenType::Subexpression)).cloned().collect();
    o["sig"] = json!(tokens_json(&sig));
    o["sigs"] = json!(sig.iter().map(|t| t.get_text().clone()).collect::<Vec<String>>());
    match guarded(|| parse(&toks)) {
        Err(m) => {
            o["stage"] = json!("parse");
            o["status"] = json!("panic");
            o["msg"] = json!(m);
            return o;
        }
        Ok(Err(e)) => {
            o["stage"] = json!("parse");
            o["status"] = json!("err");
            o["msg"] = json!(e.get_message());
            return o;
        }
        Ok(Ok(pr)) => {
            o["root"] = json!(pr.get_root());
            o["nodes"] = json!(nodes_json(&pr));
        }
    }
    o["stage"] = json!("run");
    o["status"] = json!("ok");
    o["runs"] = json!([run_one::<SimpleD>(src, input), run_one::<BasicN>(src, input)]);
    o
}

pub fn layout_case(case: &Value) -> Value {
    let base = case["base"].as_str().unwrap_or("");
    let text = case["text"].as_str().unwrap_or("");
    learn_names(base);
    let mut o = json!({"b": observe(base, &case["input"]), "v": observe(text, &case["input"])});
    for k in ["ast", "rw", "toks", "input", "base", "text"] {
        if !case[k].is_null() {
            o[k] = case[k].clone();
        }
    }
    o
}
