use serde_json::{json, Value};
pub fn multi_case(_c: &Value) -> Value { json!({}) }
