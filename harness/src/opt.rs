//! `opt` (C19): a script of mutator operations on BasicGarnishData with compactions (`optimize`) and
//! `clone_data` in between; before and after every compaction everything reachable is read back
//! structurally through the GarnishData getters (operand stack, input-value stack, frame chain, symbol
//! names, retained prefix, extra roots through the returned mapping).
//!
//! script ops (ids are arbitrary integers chosen by the generator; a description may contain
//! {"t":"ref","id":k} leaves to share an earlier value by address):
//!   {"op":"val","id":k,"d":desc}   {"op":"reg","id":k}   {"op":"popreg"}   {"op":"pushval","id":k}   {"op":"popval"}
//!   {"op":"frame","v":n}   {"op":"popframe"}   {"op":"symname","n":"abc"}   {"op":"retain"}
//!   {"op":"gc","roots":[ids]}   {"op":"clone","id":k}
use crate::guarded;
use crate::store::{BasicN, Host, Store};
use crate::val::{make, show};
use garnish_lang::GarnishData;
use serde_json::{json, Value};
use std::collections::BTreeMap;

fn e<E: std::fmt::Display>(x: E) -> String {
    format!("{}", x)
}

fn make_ref(d: &mut BasicN, v: &Value, ids: &BTreeMap<i64, usize>) -> Result<usize, String> {
    let t = v["t"].as_str().unwrap_or("");
    match t {
        "ref" => ids.get(&v["id"].as_i64().unwrap_or(-1)).cloned().ok_or_else(|| format!("script refers to unknown id {}", v["id"])),
        "pair" | "concat" | "range" | "slice" | "partial" => {
            let l = make_ref(d, &v["l"], ids)?;
            let r = make_ref(d, &v["r"], ids)?;
            match t {
                "pair" => d.add_pair((l, r)),
                "concat" => d.add_concatenation(l, r),
                "range" => d.add_range(l, r),
                "slice" => d.add_slice(l, r),
                _ => d.add_partial(l, r),
            }
            .map_err(e)
        }
        "list" => {
            let mut addrs = vec![];
            for it in v["v"].as_array().cloned().unwrap_or_default() {
                addrs.push(make_ref(d, &it, ids)?);
            }
            let mut l = d.start_list(addrs.len()).map_err(e)?;
            for a in addrs {
                l = d.add_to_list(l, a).map_err(e)?;
            }
            d.end_list(l).map_err(e)
        }
        _ => make(d, v),
    }
}

fn snapshot(d: &BasicN, ids: &BTreeMap<i64, usize>, retained: &[i64], roots: &[usize], names: &[String]) -> Value {
    let regs: Vec<Value> = d.reg_addrs().iter().map(|a| show(d, *a, 0)).collect();
    let vals: Vec<Value> = d.val_addrs().iter().map(|a| show(d, *a, 0)).collect();
    let frames: Vec<Value> = d.frame_rets().iter().map(|a| json!(*a as i64)).collect();
    let ret: Vec<Value> = retained.iter().map(|k| json!({"id": k, "v": ids.get(k).map(|a| show(d, *a, 0)).unwrap_or(json!({"t": "bad", "why": "no address"}))})).collect();
    let rts: Vec<Value> = roots.iter().map(|a| show(d, *a, 0)).collect();
    let syms: Vec<Value> = names
        .iter()
        .map(|n| {
            let s = garnish_lang::simple::symbol_value(n);
            match guarded(|| d.get_symbol_string(s)) {
                Ok(Ok(Some(x))) => json!({"n": n, "r": if &x == n { "same" } else { "other" }}),
                Ok(Ok(None)) => json!({"n": n, "r": "gone"}),
                Ok(Err(x)) => json!({"n": n, "r": "err", "msgk": crate::run::msg_key(&e(x))}),
                Err(m) => json!({"n": n, "r": "panic", "msgk": m}),
            }
        })
        .collect();
    json!({"regs": regs, "vals": vals, "frames": frames, "retained": ret, "roots": rts, "syms": syms,
           "cur": d.get_current_value().map(|a| show(d, a, 0)).unwrap_or(json!({"t": "none"}))})
}

pub fn opt_case(case: &Value) -> Value {
    let script = case["script"].as_array().cloned().unwrap_or_default();
    let mut o = case.clone();
    let r = guarded(|| {
        let mut d = BasicN::fresh(Host::default());
        let mut ids: BTreeMap<i64, usize> = BTreeMap::new();
        let mut retained: Vec<i64> = vec![];
        let mut names: Vec<String> = vec![];
        let mut events = vec![];
        for (k, op) in script.iter().enumerate() {
            let name = op["op"].as_str().unwrap_or("");
            let id = op["id"].as_i64().unwrap_or(-1);
            let fail = |m: String| format!("script step {} ({}): {}", k, name, m);
            match name {
                "val" => {
                    let a = make_ref(&mut d, &op["d"], &ids).map_err(fail)?;
                    ids.insert(id, a);
                }
                "reg" => d.push_register(*ids.get(&id).ok_or_else(|| fail("unknown id".into()))?).map_err(|x| fail(e(x)))?,
                "popreg" => {
                    d.pop_register().map_err(|x| fail(e(x)))?;
                }
                "pushval" => d.push_value_stack(*ids.get(&id).ok_or_else(|| fail("unknown id".into()))?).map_err(|x| fail(e(x)))?,
                "popval" => {
                    d.pop_value_stack();
                }
                "frame" => d.push_frame(op["v"].as_u64().unwrap_or(0) as usize).map_err(|x| fail(e(x)))?,
                "popframe" => {
                    d.pop_frame().map_err(|x| fail(e(x)))?;
                }
                "symname" => {
                    let n = op["n"].as_str().unwrap_or("x").to_string();
                    let a = d.parse_add_symbol(&n).map_err(|x| fail(e(x)))?;
                    ids.insert(id, a);
                    names.push(n);
                }
                "retain" => {
                    d.retain_all_current_data();
                    let count = d.data_retention_count();
                    retained = ids.iter().filter(|(_, a)| **a < count).map(|(k, _)| *k).collect();
                }
                "gc" => {
                    let root_ids: Vec<i64> = op["roots"].as_array().map(|a| a.iter().map(|x| x.as_i64().unwrap_or(-1)).collect()).unwrap_or_default();
                    let mut roots = vec![];
                    for rid in &root_ids {
                        roots.push(*ids.get(rid).ok_or_else(|| fail(format!("unknown root id {}", rid)))?);
                    }
                    let before = snapshot(&d, &ids, &retained, &roots, &names);
                    let size_before = d.get_data_len();
                    let res = guarded(|| d.optimize(&roots));
                    let mut ev = json!({"ev": "gc", "at": k, "before": before, "size_before": size_before});
                    match res {
                        Err(m) => {
                            ev["status"] = json!("panic");
                            ev["msgk"] = json!(m);
                            events.push(ev);
                            break;
                        }
                        Ok(Err(x)) => {
                            ev["status"] = json!("err");
                            ev["msgk"] = json!(crate::run::msg_key(&e(x)));
                            events.push(ev);
                            break;
                        }
                        Ok(Ok(mapped)) => {
                            ev["status"] = json!("ok");
                            ev["mapped_len"] = json!(mapped.len());
                            // only retained values and the extra roots keep an address the script may use afterwards
                            let count = d.data_retention_count();
                            let keep: Vec<(i64, usize)> = ids.iter().filter(|(k, a)| **a < count && retained.contains(k)).map(|(k, a)| (*k, *a)).collect();
                            ids.clear();
                            for (k, a) in keep {
                                ids.insert(k, a);
                            }
                            for (rid, a) in root_ids.iter().zip(mapped.iter()) {
                                ids.insert(*rid, *a);
                            }
                            ev["after"] = snapshot(&d, &ids, &retained, &mapped, &names);
                            ev["size_after"] = json!(d.get_data_len());
                            events.push(ev);
                        }
                    }
                }
                "clone" => {
                    let a = *ids.get(&id).ok_or_else(|| fail("unknown id".into()))?;
                    let before = show(&d, a, 0);
                    let res = guarded(|| d.clone_data(a));
                    let mut ev = json!({"ev": "clone", "at": k, "before": before});
                    match res {
                        Err(m) => {
                            ev["status"] = json!("panic");
                            ev["msgk"] = json!(m);
                        }
                        Ok(Err(x)) => {
                            ev["status"] = json!("err");
                            ev["msgk"] = json!(crate::run::msg_key(&e(x)));
                        }
                        Ok(Ok(c)) => {
                            ev["status"] = json!("ok");
                            ev["distinct"] = json!(c != a);
                            ev["copy"] = show(&d, c, 0);
                            ev["original_after"] = show(&d, a, 0);
                        }
                    }
                    events.push(ev);
                }
                _ => return Err(fail("unknown op".into())),
            }
        }
        Ok::<Value, String>(json!(events))
    });
    match r {
        Err(m) => {
            o["status"] = json!("panic");
            o["msgk"] = json!(m);
        }
        Ok(Err(m)) => {
            o["status"] = json!("scripterr");
            o["msgk"] = json!(m);
        }
        Ok(Ok(ev)) => {
            o["status"] = json!("ok");
            o["events"] = ev;
        }
    }
    o
}
