use serde_json::{json, Value};
pub fn opt_case(_c: &Value) -> Value { json!({}) }
