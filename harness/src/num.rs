//! `num`: one arithmetic/bitwise operation on two numbers, observed at two levels:
//! the `GarnishNumber` method on `SimpleNumber`, and the corresponding instruction on both stores.
use crate::guarded;
use crate::store::{BasicN, Host, SimpleD, Store};
use crate::val::{num_json, num_of, show};
use garnish_lang::simple::{execute_current_instruction, SimpleNumber};
use garnish_lang::{GarnishNumber, Instruction};
use serde_json::{json, Value};

fn method(op: &str, a: SimpleNumber, b: SimpleNumber) -> Option<Option<SimpleNumber>> {
    Some(match op {
        "Add" => a.plus(b),
        "Subtract" => a.subtract(b),
        "Multiply" => a.multiply(b),
        "Divide" => a.divide(b),
        "IntegerDivide" => a.integer_divide(b),
        "Power" => a.power(b),
        "Remainder" => a.remainder(b),
        "BitwiseAnd" => a.bitwise_and(b),
        "BitwiseOr" => a.bitwise_or(b),
        "BitwiseXor" => a.bitwise_xor(b),
        "BitwiseShiftLeft" => a.bitwise_shift_left(b),
        "BitwiseShiftRight" => a.bitwise_shift_right(b),
        "AbsoluteValue" => a.absolute_value(),
        "Opposite" => a.opposite(),
        "BitwiseNot" => a.bitwise_not(),
        "Increment" => a.increment(),
        "Decrement" => a.decrement(),
        _ => return None,
    })
}

pub fn instruction_of(name: &str) -> Option<Instruction> {
    use Instruction::*;
    Some(match name {
        "Put" => Put, "PutValue" => PutValue, "PushValue" => PushValue, "UpdateValue" => UpdateValue, "JumpTo" => JumpTo,
        "EndExpression" => EndExpression, "Add" => Add, "Subtract" => Subtract, "Multiply" => Multiply, "Divide" => Divide,
        "IntegerDivide" => IntegerDivide, "Power" => Power, "Opposite" => Opposite, "AbsoluteValue" => AbsoluteValue,
        "Remainder" => Remainder, "BitwiseNot" => BitwiseNot, "BitwiseAnd" => BitwiseAnd, "BitwiseOr" => BitwiseOr,
        "BitwiseXor" => BitwiseXor, "BitwiseShiftLeft" => BitwiseShiftLeft, "BitwiseShiftRight" => BitwiseShiftRight,
        "And" => And, "Or" => Or, "Xor" => Xor, "Not" => Not, "Tis" => Tis, "JumpIfTrue" => JumpIfTrue, "JumpIfFalse" => JumpIfFalse,
        "TypeOf" => TypeOf, "ApplyType" => ApplyType, "TypeEqual" => TypeEqual, "Equal" => Equal, "NotEqual" => NotEqual,
        "LessThan" => LessThan, "LessThanOrEqual" => LessThanOrEqual, "GreaterThan" => GreaterThan,
        "GreaterThanOrEqual" => GreaterThanOrEqual, "MakePair" => MakePair, "MakeList" => MakeList, "Apply" => Apply,
        "PartialApply" => PartialApply, "EmptyApply" => EmptyApply, "Reapply" => Reapply, "Access" => Access,
        "AccessLeftInternal" => AccessLeftInternal, "AccessRightInternal" => AccessRightInternal,
        "AccessLengthInternal" => AccessLengthInternal, "Resolve" => Resolve, "StartSideEffect" => StartSideEffect,
        "EndSideEffect" => EndSideEffect, "MakeRange" => MakeRange, "MakeStartExclusiveRange" => MakeStartExclusiveRange,
        "MakeEndExclusiveRange" => MakeEndExclusiveRange, "MakeExclusiveRange" => MakeExclusiveRange, "Concat" => Concat,
        _ => return None,
    })
}

fn via_instruction<S: Store>(op: &str, a: SimpleNumber, b: Option<SimpleNumber>) -> Value {
    let ins = match instruction_of(op) {
        Some(i) => i,
        None => return json!({"k": "na"}),
    };
    let r = guarded(|| {
        let mut d = S::fresh(Host::default());
        let i = d.push_instruction(ins, None).map_err(|e| format!("{}", e))?;
        let aa = d.add_number(a).map_err(|e| format!("{}", e))?;
        d.push_register(aa).map_err(|e| format!("{}", e))?;
        if let Some(b) = b {
            let ba = d.add_number(b).map_err(|e| format!("{}", e))?;
            d.push_register(ba).map_err(|e| format!("{}", e))?;
        }
        d.set_instruction_cursor(i).map_err(|e| format!("{}", e))?;
        execute_current_instruction(&mut d).map_err(|e| format!("{}", e))?;
        let regs = d.reg_addrs();
        if regs.len() != 1 {
            return Err(format!("{} results left", regs.len()));
        }
        Ok::<Value, String>(show(&d, regs[0], 0))
    });
    match r {
        Err(m) => json!({"k": "panic", "msg": m}),
        Ok(Err(m)) => json!({"k": "err", "msg": m}),
        Ok(Ok(v)) => json!({"k": "val", "v": v}),
    }
}

/// case: {"op": instruction or method name, "a": num desc, "b": num desc | absent}
pub fn num_case(case: &Value) -> Value {
    let op = case["op"].as_str().unwrap_or("");
    let a = match num_of(&case["a"]) {
        Ok(a) => a,
        Err(m) => return json!({"error": m}),
    };
    let b = if case["b"].is_null() { None } else { num_of(&case["b"]).ok() };
    let m = match guarded(|| method(op, a, b.unwrap_or(SimpleNumber::Integer(0)))) {
        Err(msg) => json!({"k": "panic", "msg": msg}),
        Ok(None) => json!({"k": "na"}),
        Ok(Some(None)) => json!({"k": "val", "v": {"t": "unit"}}),
        Ok(Some(Some(n))) => json!({"k": "val", "v": num_json(n)}),
    };
    let mut o = case.clone();
    o["an"] = num_json(a);
    o["bn"] = num_json(b.unwrap_or(a));
    o["method"] = m;
    o["simple"] = via_instruction::<SimpleD>(op, a, b);
    o["basic"] = via_instruction::<BasicN>(op, a, b);
    o
}
