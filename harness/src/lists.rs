//! `list` (C16): a list (optionally concatenated with a second one) built through start_list / add_to_list / end_list;
//! everything the data interface and the runtime report about it: length, items at in-range and out-of-range indexes,
//! iteration order, look-up of every listed symbol - at the data level (GarnishData getters) and at the runtime
//! level (Access, Apply, AccessLengthInternal instructions).
use crate::guarded;
use crate::store::{BasicN, Host, SimpleD, Store};
use crate::val::{full_extents, make, show, sym_of_name};
use garnish_lang::simple::{execute_current_instruction, DataError, SimpleNumber};
use garnish_lang::Instruction;
use serde_json::{json, Value};

fn first_line(e: &DataError) -> String {
    crate::run::msg_key(&format!("{}", e))
}

fn build_list<S: Store>(d: &mut S, items: &[Value]) -> Result<(usize, Vec<usize>), String> {
    let mut addrs = vec![];
    for it in items {
        addrs.push(make(d, it)?);
    }
    let mut l = d.start_list(addrs.len()).map_err(|e| format!("start_list: {}", e))?;
    for a in &addrs {
        l = d.add_to_list(l, *a).map_err(|e| format!("add_to_list: {}", e))?;
    }
    let l = d.end_list(l).map_err(|e| format!("end_list: {}", e))?;
    Ok((l, addrs))
}

/// one instruction on operands that already exist; the result is what it leaves above the sentinel
fn exec<S: Store>(d: &mut S, ins: Instruction, operands: &[usize]) -> Value {
    let r = guarded(|| {
        let e = |x: DataError| format!("{}", x);
        let sentinel = d.add_number(SimpleNumber::Integer(7777)).map_err(e)?;
        while d.get_register_len() > 0 {
            if d.pop_register().map_err(e)?.is_none() {
                break;
            }
        }
        d.push_register(sentinel).map_err(e)?;
        for a in operands {
            d.push_register(*a).map_err(e)?;
        }
        let i = d.push_instruction(ins, None).map_err(e)?;
        d.push_instruction(Instruction::EndExpression, None).map_err(e)?;
        d.set_instruction_cursor(i).map_err(e)?;
        match execute_current_instruction(d) {
            Err(x) => Ok::<Value, String>(json!({"r": "err", "msgk": crate::run::msg_key(&format!("{} | {:?}", x.get_message(), std::error::Error::source(&x).map(|s| s.to_string().lines().next().unwrap_or("").to_string())))})),
            Ok(_) => {
                let regs = d.reg_addrs();
                if regs.len() == 2 && regs[0] == sentinel {
                    Ok(json!({"r": "ok", "v": show(d, regs[1], 0)}))
                } else {
                    Ok(json!({"r": "stack", "n": regs.len()}))
                }
            }
        }
    });
    match r {
        Err(m) => json!({"r": "panic", "msgk": m}),
        Ok(Err(m)) => json!({"r": "setuperr", "msgk": m}),
        Ok(Ok(v)) => v,
    }
}

fn opt_json<S: Store>(d: &S, r: Result<Option<usize>, DataError>) -> Value {
    match r {
        Ok(Some(a)) => json!({"r": "some", "v": show(d, a, 0)}),
        Ok(None) => json!({"r": "none"}),
        Err(e) => json!({"r": "err", "msgk": first_line(&e)}),
    }
}

fn observe<S: Store>(case: &Value) -> Value {
    let items = case["items"].as_array().cloned().unwrap_or_default();
    let second = case["second"].as_array().cloned().unwrap_or_default();
    let syms: Vec<String> = case["syms"].as_array().map(|a| a.iter().map(|s| s.as_str().unwrap_or("").to_string()).collect()).unwrap_or_default();
    let r = guarded(|| {
        let mut d = S::fresh(Host::default());
        let u = d.add_unit().map_err(|e| format!("{}", e))?;
        d.push_value_stack(u).map_err(|e| format!("{}", e))?;
        for k in 0..case["pad"].as_u64().unwrap_or(0) {
            d.add_number(SimpleNumber::Integer(1000 + k as i32)).map_err(|e| format!("{}", e))?;
        }
        let (mut l, _) = build_list(&mut d, &items)?;
        if case["copy"].as_bool().unwrap_or(false) {
            // the list is copied into another data object of the same kind (traits::helpers::clone_data) and everything below is
            // asked of the COPY: a copy of a list is a list of the same items in the same order under the same keys
            let mut d2 = S::fresh(Host::default());
            let u2 = d2.add_unit().map_err(|e| format!("{}", e))?;
            d2.push_value_stack(u2).map_err(|e| format!("{}", e))?;
            for k in 0..case["pad"].as_u64().unwrap_or(0) {
                d2.add_number(SimpleNumber::Integer(2000 + k as i32)).map_err(|e| format!("{}", e))?;
            }
            l = garnish_lang_traits::helpers::clone_data(l, &d, &mut d2).map_err(|e| format!("clone_data: {}", e))?;
            d = d2;
        }
        let n = items.len() as i32;
        let mut o = json!({"store": S::name(), "status": "ok"});
        o["len"] = d.get_list_len(l).map(|x| json!(x)).unwrap_or(json!(-1));
        let mut probes: Vec<i32> = vec![-1, n, n + 1, i32::MAX, i32::MIN];
        probes.extend(0..n);
        probes.sort();
        probes.dedup();
        let mut idx = vec![];
        for i in &probes {
            let mut e = match guarded(|| d.get_list_item(l, SimpleNumber::Integer(*i))) {
                Ok(r) => opt_json(&d, r),
                Err(m) => json!({"r": "panic", "msgk": m}),
            };
            e["i"] = json!(*i);
            idx.push(e);
        }
        o["index"] = json!(idx);
        o["iter"] = match guarded(|| d.get_list_item_iter(l, full_extents()).map(|it| it.collect::<Vec<usize>>())) {
            Ok(Ok(v)) => json!({"r": "ok", "v": v.iter().map(|a| show(&d, *a, 0)).collect::<Vec<_>>()}),
            Ok(Err(e)) => json!({"r": "err", "msgk": first_line(&e)}),
            Err(m) => json!({"r": "panic", "msgk": m}),
        };
        // iteration over a part of the list: extents (start, end) select the items from start up to, not including, end
        let mut parts = vec![];
        for (a, b) in [(0, n), (1, n), (0, n - 1), (1, 1), (2, 1), (-1, 1), (0, n + 3), (n, n + 1), (1, 2)] {
            let r = guarded(|| d.get_list_item_iter(l, garnish_lang::Extents::new(SimpleNumber::Integer(a), SimpleNumber::Integer(b))).map(|it| it.collect::<Vec<usize>>()));
            parts.push(match r {
                Ok(Ok(v)) => json!({"a": a, "b": b, "r": "ok", "v": v.iter().map(|x| show(&d, *x, 0)).collect::<Vec<_>>()}),
                Ok(Err(e)) => json!({"a": a, "b": b, "r": "err", "msgk": first_line(&e)}),
                Err(m) => json!({"a": a, "b": b, "r": "panic", "msgk": m}),
            });
        }
        o["parts"] = json!(parts);
        let mut look = vec![];
        for s in &syms {
            let sv = sym_of_name(s);
            let mut e = match guarded(|| d.get_list_item_with_symbol(l, sv)) {
                Ok(r) => opt_json(&d, r),
                Err(m) => json!({"r": "panic", "msgk": m}),
            };
            e["s"] = json!(s);
            look.push(e);
        }
        o["lookup"] = json!(look);
        // ---- runtime level, on the list and (if given) on the concatenation  list <> second
        let mut targets = vec![("list", l, n)];
        if !second.is_empty() || case["concat"].as_bool().unwrap_or(false) {
            let (l2, _) = build_list(&mut d, &second)?;
            let c = d.add_concatenation(l, l2).map_err(|e| format!("{}", e))?;
            targets.push(("concat", c, n + second.len() as i32));
        }
        let mut rt = vec![];
        for (name, t, tn) in targets {
            let mut e = json!({"on": name});
            e["len"] = exec(&mut d, Instruction::AccessLengthInternal, &[t]);
            let mut ps: Vec<i32> = vec![-1, tn, tn + 1];
            ps.extend(0..tn);
            ps.sort();
            ps.dedup();
            let mut acc = vec![];
            for i in ps {
                let k = d.add_number(SimpleNumber::Integer(i)).map_err(|e| format!("{}", e))?;
                let mut a = exec(&mut d, Instruction::Access, &[t, k]);
                a["i"] = json!(i);
                a["apply"] = exec(&mut d, Instruction::Apply, &[t, k]);
                acc.push(a);
            }
            e["index"] = json!(acc);
            let mut lk = vec![];
            for s in &syms {
                let k = d.add_symbol(sym_of_name(s)).map_err(|e| format!("{}", e))?;
                let mut a = exec(&mut d, Instruction::Access, &[t, k]);
                a["s"] = json!(s);
                a["apply"] = exec(&mut d, Instruction::Apply, &[t, k]);
                lk.push(a);
            }
            e["lookup"] = json!(lk);
            rt.push(e);
        }
        o["rt"] = json!(rt);
        Ok::<Value, String>(o)
    });
    match r {
        Err(m) => json!({"store": S::name(), "status": "panic", "msgk": m}),
        Ok(Err(m)) => json!({"store": S::name(), "status": "builderr", "msgk": crate::run::msg_key(&m)}),
        Ok(Ok(v)) => v,
    }
}

pub fn list_case(case: &Value) -> Value {
    let mut o = case.clone();
    o["runs"] = json!([observe::<SimpleD>(case), observe::<BasicN>(case)]);
    o
}
