use serde_json::{json, Value};
pub fn list_case(_c: &Value) -> Value { json!({}) }
