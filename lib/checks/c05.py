"""C05 - built instruction streams are well-formed (DESIGN.md 5/C05).
Same corpus and observations as C04 (accepted inputs with dumps); builds go into a store pre-loaded with one instruction, one jump
entry and a few constants, so that an unpatched placeholder 0 or a table length used as an offset lies OUTSIDE the build's range.
V: V_Compile!C05 on both stores' dumps: data operands, jump operands, expression values, jump-table entries, block terminators,
   metadata parallel to the instructions."""
from checks import c04


def run(out, tier, seed):
    c04.run(out, tier, seed, prop="C05")


def replay(out, path):
    c04.PROP = "C05"
    c04.replay(out, path)
