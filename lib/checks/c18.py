"""C18 - layout that carries no meaning does not change the result (DESIGN.md 5/C18).
G: MC_Layout: programs of the MC_Programs corpus x every single application of every rewrite of Layout.tla (more blanks/tabs,
   no blank, annotation, comment line, trailing blanks before a line break, parentheses around a complete operand, an added
   side-effect block without effect) at every applicable position; random combinations by -simulate.
R: harness `layout`: both texts through lex / parse / build / run on both stores.
V: V_C18: same parse tree up to group nodes and attached blocks, same outcome on each store."""
import json, os, random
import vlib
from checks import progs


def sample_programs(out, tier, wd, rnd):
    """A sample of the shared corpus, stratified by construct: for every production label, `per` programs that contain it
    (so that rare constructs such as re-apply or else-chains are always present), plus a uniform sample."""
    plan = [("MC_Programs_q3", 120, 600), ("MC_Programs_calls6", 30, 150), ("MC_Programs_conds5", 40, 200), ("MC_Programs_lists5", 25, 120), ("MC_Programs_chains7", 8, 30)]
    per = 6 if tier == "quick" else 15
    chosen, parts, seen = [], [], set()

    def take(p):
        k = tuple(p["ast"])
        if k not in seen:
            seen.add(k)
            chosen.append(p)
    for cfg, nq, nt in plan:
        pp = os.path.join(wd, cfg + ".ndjson")
        progs.generate_programs(out, cfg, pp, timeout=3000)
        allp = list(vlib.read_ndjson(pp))
        before = len(chosen)
        by_label = {}
        for p in allp:
            labels = set(p["ast"])
            if "reap" in labels and "nest" not in labels:
                labels.add("reap@root")          # a re-apply of the program itself: it always runs
            if "nest" in labels and labels & {"emp", "app", "appto"}:
                labels.add("nest@applied")
            for l in labels:
                by_label.setdefault(l, []).append(p)
        for l in sorted(by_label):
            k = per * 6 if "@" in l else per
            for p in (by_label[l] if len(by_label[l]) <= k else rnd.sample(by_label[l], k)):
                take(p)
        k = nq if tier == "quick" else nt
        for p in (allp if len(allp) <= k else rnd.sample(allp, k)):
            take(p)
        parts.append("%s: %d of %d" % (cfg, len(chosen) - before, len(allp)))
    return chosen, ", ".join(parts)


def run(out, tier, seed):
    wd = vlib.workdir(out.pid)
    rnd = random.Random(seed)
    chosen, desc = sample_programs(out, tier, wd, rnd)
    pfile = os.path.join(wd, "progs.ndjson")
    vlib.write_ndjson(pfile, chosen)
    inputs = [None, progs.INPUTS[1], progs.INPUTS[3]]
    cases = os.path.join(wd, "cases.ndjson")
    n = 0
    seen = set()
    with open(cases, "w") as f:
        def tr(p):
            nonlocal n
            key = (p["base"], p["text"])
            if key in seen:
                return None
            seen.add(key)
            # programs that loop on their input are run with every input value, the others with one (round robin)
            for inp in (inputs if "reap" in p["ast"] else [inputs[len(seen) % len(inputs)]]):
                q = dict(p)
                if inp is not None:
                    q["input"] = inp
                f.write(json.dumps(q, separators=(",", ":")) + "\n")
                n += 1
            return None
        _, res = vlib.generate(out.pid, "MC_Layout", "MC_Layout", os.path.join(wd, "single.ndjson"), env={"PROGS": pfile}, transform=tr, timeout=3000)
        out.add_model(res)
        nsingle = n
        # random combinations of rewrites on a smaller sample
        sfile = os.path.join(wd, "progs_sim.ndjson")
        vlib.write_ndjson(sfile, [dict(p, seed=rnd.randrange(1 << 20)) for p in (chosen if tier == "quick" else rnd.sample(chosen, min(len(chosen), 800)))])
        # random mode: every behaviour draws one random combination (COPIES behaviours per program), explored breadth-first
        _, res = vlib.generate(out.pid, "MC_Layout", "MC_Layout_sim", os.path.join(wd, "combo.ndjson"), env={"PROGS": sfile}, transform=tr, timeout=3000)
        out.add_model(res)
    obs = os.path.join(wd, "obs.ndjson")
    st = vlib.run_workers("layout", cases, n, obs, timeout=30)
    decide(out, obs, n, st, "programs sampled from the shared corpus (%s) x every single rewrite at every applicable position (%d pairs, exhaustive per program) + %d pairs with "
           "random combinations of up to 2 structural and 3 gap rewrites; x 3 input values (round robin) x 2 stores" % (desc, nsingle, n - nsingle))
    out.cov["exhaustive"] = True


def decide(out, obs, n, st, rule):
    fails, states, _ = vlib.validate(out.pid, "V_C18", obs, chunk=4000, workers=1)
    acc = len([s for s in vlib.LAST_STATS if s.get("accepted")])
    out.cov["states"] += states
    out.cov["evaluations"] = n
    out.cov["traces_validated_against_impl"] = 4 * n
    out.cov["distinct_nontrivial"] = acc
    out.cov["inapplicable_rewrites"] = n - acc
    out.cov["worker_hangs"] = st["hang"]
    out.cov["rule"] = rule + "; non-trivial = the rewrite is applicable (both texts lex to the intended tokens and the original is accepted)"
    samples = []
    failing = {fl["line"] for fl in fails}
    origin = {}
    for ln, o in enumerate(vlib.read_ndjson(obs)):
        if o.get("outcome") == "notrun":
            continue
        if o.get("outcome") in ("hang", "abort", "harness_panic"):
            out.fail("NEW", "worker %s on a layout pair" % o.get("outcome"), o, family="worker " + str(o.get("outcome")))
        if ln in failing:
            origin[ln] = {k: o[k] for k in ("ast", "rw", "toks", "input", "base", "text") if k in o}
        if len(samples) < 5 and o.get("case", 0) % 4001 == 7:
            samples.append({"base": o.get("base"), "text": o.get("text"), "rewrites": o.get("rw")})
    out.cov["samples"] = samples
    for fl in fails:
        kinds = "+".join(fl.get("rw", []))
        for why in fl["fails"]:
            out.fail(fl.get("kf", "NEW"), "%s after %s: %r -> %r" % (why, kinds, fl.get("base"), fl.get("text")),
                     {"base": fl.get("base"), "text": fl.get("text"), "rewrites": fl.get("rw"), "why": why, "layout_case": origin.get(fl["line"])}, family="%s after %s" % (why, kinds))


def replay(out, path):
    case = json.load(open(path))["case"].get("layout_case")
    if not case:
        raise vlib.ToolError("the replay file carries no layout_case: re-run the full check")
    wd = vlib.workdir(out.pid)
    cases = os.path.join(wd, "cases.ndjson")
    vlib.write_ndjson(cases, [case])
    obs = os.path.join(wd, "obs.ndjson")
    st = vlib.run_workers("layout", cases, 1, obs, timeout=30)
    decide(out, obs, 1, st, "replay of one recorded case")
