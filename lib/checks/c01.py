"""C01 - compiled programs compute what the source means (DESIGN.md 5/C01).
G: MC_Programs enumerates every well-formed core-language AST up to N nodes (and random larger ones by -simulate)
   and prints it with minimal parentheses.
R: harness `run`: lex, parse, build, execute to completion on SimpleGarnishData and BasicGarnishData, for 5 inputs.
V: V_Run: TLC evaluates the reference evaluator Eval.tla on the AST and compares value (and log, depths)."""
import json, os
import vlib
from checks import progs


def make_cases(progs_path, cases_path, inputs, extra=None, trace=False):
    n = 0
    with open(cases_path, "w") as f:
        for p in vlib.read_ndjson(progs_path):
            src = progs.render(p["toks"])
            for inp in inputs:
                c = {"src": src, "ast": p["ast"], "trace": trace}
                if inp is not None:
                    c["input"] = inp
                if extra:
                    c.update(extra)
                f.write(json.dumps(c, separators=(",", ":")) + "\n")
                n += 1
    return n


SEPS = [" ; ", "\n\n", "\n\t\n", " \n \n ", ";"]
LIST4 = {"t": "list", "v": [{"t": "int", "v": 10}, {"t": "int", "v": 20}, {"t": "pair", "l": {"t": "sym", "n": "a"}, "r": {"t": "int", "v": 30}}, {"t": "int", "v": 40}]}
NESTED = {"t": "list", "v": [{"t": "pair", "l": {"t": "sym", "n": "a"}, "r": {"t": "list", "v": [{"t": "pair", "l": {"t": "sym", "n": "b"}, "r": {"t": "int", "v": 1}}, {"t": "int", "v": 7},
                                {"t": "pair", "l": {"t": "sym", "n": "a"}, "r": {"t": "list", "v": [{"t": "int", "v": 9}]}}]}},
                          {"t": "pair", "l": {"t": "sym", "n": "b"}, "r": {"t": "int", "v": 2}}, {"t": "int", "v": 40}]}
FOCUSED_QUICK = [("MC_Programs_calls6", [None, {"t": "int", "v": 5}]),
                 ("MC_Programs_conds5", [None, {"t": "int", "v": 5}]),
                 ("MC_Programs_chains7", [{"t": "int", "v": 5}]),
                 ("MC_Programs_arith5", [None]),
                 ("MC_Programs_seqs4", [{"t": "int", "v": 5}]),
                 ("MC_Programs_slices7", [LIST4]),
                 ("MC_Programs_partial5", [{"t": "int", "v": 5}]),
                 ("MC_Programs_casts7q", [LIST4]),
                 ("MC_Programs_paths5", [NESTED]),
                 ("MC_Programs_logic5", [{"t": "int", "v": 5}]),
                 ("MC_Programs_bytes4", [None])]
FOCUSED_THOROUGH = [("MC_Programs_calls8", [None, {"t": "int", "v": 5}]),
                    ("MC_Programs_conds6", [None, {"t": "int", "v": 5}, progs.INPUTS[3]]),
                    ("MC_Programs_chains7", [None, {"t": "int", "v": 5}]),
                    ("MC_Programs_lists5", [None, progs.INPUTS[3], progs.INPUTS[4]]),
                    ("MC_Programs_arith5", [None, {"t": "int", "v": 5}]),
                    ("MC_Programs_seqs5", [None, {"t": "int", "v": 1}]),
                    ("MC_Programs_slices7w", [LIST4]),
                    ("MC_Programs_partial6", [None, {"t": "int", "v": 5}]),
                    ("MC_Programs_casts6", [None, LIST4]), ("MC_Programs_casts7", [LIST4]), ("MC_Programs_paths6", [NESTED, LIST4]), ("MC_Programs_logic5", [None, {"t": "int", "v": 5}, {"t": "false"}]),
                    ("MC_Programs_bytes5", [None])]


def LOGIC8(a):
    """a conditional with an else-chain inside an operand of && / || next to a `??`: the join point of the conditional and the
    closing coercion of the operand meet (the shape of repair 4d78030)"""
    return "els" in a and "tis" in a and ("and" in a or "or" in a)


def corpus(out, tier, seed, wd, trace=False, extra=None, light=False):
    """The shared program corpus: all ASTs up to 3 (quick) / 4 (thorough) nodes over the broad alphabet, deeper ASTs over
    focused alphabets (call structure, conditionals and loops, lists and keys, arithmetic chains), random larger ASTs.
    Returns (cases path, number of cases, number of programs, description)."""
    cases = os.path.join(wd, "cases.ndjson")
    ncases = nprogs = 0
    parts = []
    with open(cases, "w") as f:
        def add(cfg, inputs, only=None, **kw):
            nonlocal ncases, nprogs
            pp = os.path.join(wd, cfg + ".ndjson")
            n = progs.generate_programs(out, cfg, pp, **kw)
            kept = 0
            for p in vlib.read_ndjson(pp):
                if only is None or only(p["ast"]):
                    kept += 1
            nprogs += kept
            parts.append("%s=%d" % (cfg, kept) if only is None else "%s=%d of %d" % (cfg, kept, n))
            for k, p in enumerate(vlib.read_ndjson(pp)):
                if only is not None and not only(p["ast"]):
                    continue
                # a sequence is written with `;` or with a blank line (which may hold blanks or a tab): rotate through the spellings
                src = progs.render(p["toks"], sep=SEPS[k % len(SEPS)] if "seq" in p["ast"] else " ; ")
                for inp in inputs:
                    c = {"src": src, "ast": p["ast"], "trace": trace}
                    if inp is not None:
                        c["input"] = inp
                    if extra:
                        c.update(extra)
                    f.write(json.dumps(c, separators=(",", ":")) + "\n")
                    ncases += 1
                if kw_copy.get(cfg):
                    # compile once, execute in a working copy of the store (SimpleGarnishData's clone_* family): same meaning
                    c = {"src": src, "ast": p["ast"], "trace": trace, "via": "clone", "stores": "simple"}
                    if inputs[-1] is not None:
                        c["input"] = inputs[-1]
                    if extra:
                        c.update(extra)
                    f.write(json.dumps(c, separators=(",", ":")) + "\n")
                    ncases += 1
        kw_copy = {} if (trace or extra) else {"MC_Programs_q3": 1, "MC_Programs_calls6": 1, "MC_Programs_seqs4": 1, "MC_Programs_t3": 1, "MC_Programs_calls8": 1, "MC_Programs_seqs5": 1, "MC_Programs_partial5": 1, "MC_Programs_partial6": 1}
        if os.environ.get("VERIF_ONLY_CFG"):      # development aid: one generator config only (not used by any registered command)
            add(os.environ["VERIF_ONLY_CFG"], [None, {"t": "int", "v": 5}])
        elif tier == "quick" and light:       # traced runs are an order of magnitude larger: fewer inputs per program
            add("MC_Programs_q3", [None, progs.INPUTS[3]])
            add("MC_Programs_calls6", [progs.INPUTS[1]])
            add("MC_Programs_conds5", [None])
            add("MC_Programs_chains7", [progs.INPUTS[1]])
            add("MC_Programs_seqs4", [progs.INPUTS[1]])
            add("MC_Programs_logic4", [progs.INPUTS[1]])
            add("MC_Programs_paths5", [NESTED], only=lambda a: "app" in a and "acc" in a and ("syma" in a or "symb" in a))      # path accesses
            add("MC_Programs_sim", [progs.INPUTS[3]], simulate=150, depth=14, seed=seed, min_nodes=5, cap=500)
        elif tier == "quick":
            add("MC_Programs_q3", progs.INPUTS)
            for cfg, inputs in FOCUSED_QUICK:
                add(cfg, inputs)
            add("MC_Programs_logic8", [None], only=LOGIC8)
            add("MC_SliceEq", [LIST4], module="MC_SliceEq")          # shapes too deep for the size-bounded enumeration
            add("MC_SliceOps", [LIST4], module="MC_SliceOps")
            add("MC_Programs_sim", [None, progs.INPUTS[1], progs.INPUTS[3]], simulate=300, depth=14, seed=seed, min_nodes=5, cap=1200)
        else:
            add("MC_Programs_t4", progs.INPUTS, timeout=3000)
            add("MC_Programs_t3", progs.INPUTS)
            for cfg, inputs in FOCUSED_THOROUGH:
                add(cfg, inputs, timeout=3000)
            add("MC_Programs_logic8", [None, {"t": "int", "v": 5}], only=LOGIC8, timeout=3000)
            add("MC_SliceEq", [LIST4, None], module="MC_SliceEq")
            add("MC_SliceOps", [LIST4, None], module="MC_SliceOps")
            add("MC_Programs_sim", progs.INPUTS, simulate=6000, depth=14, seed=seed, min_nodes=5, cap=40000)
    return cases, ncases, nprogs, "programs by generator config: " + ", ".join(parts)


def run(out, tier, seed, props=("C01",)):
    wd = vlib.workdir(out.pid)
    cases, ncases, nprogs, desc = corpus(out, tier, seed, wd)
    obs = os.path.join(wd, "obs.ndjson")
    st = vlib.run_workers("run", cases, ncases, obs, timeout=20)
    decide(out, obs, props, ncases, nprogs, st, "every well-formed core-language AST up to the size bound of each generator config (exhaustive) + seeded random larger ASTs; "
           + desc + "; each x its input values x 2 stores")
    out.cov["exhaustive"] = True


def decide(out, obs, props, ncases, nprogs, st, rule):
    fails, states, _ = vlib.validate(out.pid, "V_Run", obs, chunk=4000, workers=1)
    out.cov["states"] += states
    out.cov["evaluations"] += ncases
    out.cov["traces_validated_against_impl"] += 2 * ncases
    out.cov["programs"] = nprogs
    out.cov["observations_outside_specified_fragment"] = len(vlib.LAST_STATS)
    out.cov["rule"] = rule + "; non-trivial = composes at least two constructs; a run = one (program, input, store)"
    nt = set()
    samples = []
    failing = {fl["line"] for fl in fails}
    origin = {}
    for ln, o in enumerate(vlib.read_ndjson(obs)):
        if ln in failing:
            origin[ln] = {k: o[k] for k in ("src", "ast", "input", "host", "inject", "trace", "stores", "via") if k in o}
        if "ast" in o and progs.nontrivial(o["ast"]):
            nt.add(o["src"])
        if len(samples) < 5 and o.get("case", 0) % 1777 == 0 and "runs" in o:
            samples.append({"src": o["src"], "input": o.get("input"), "values": [r.get("value", r.get("status")) for r in o["runs"]]})
        if o.get("outcome") == "notrun":
            continue
        if o.get("outcome") in ("hang", "abort", "harness_panic"):
            # (mirrors KnownFindings!HugeSpanAst, the signature V_C07 uses for the same programs)
            a = (o.get("input_case") or {}).get("ast") or []
            huge = o.get("outcome") == "hang" and "cast" in a and "nmax" in a and any(x in a for x in ("rng", "rngs", "rnge", "rngx"))
            out.fail("C07-huge-span-materialised" if huge else "NEW", "worker %s while running a program" % o.get("outcome"),
                     {"src": o.get("src"), "run_case": o.get("input_case"), "status": o.get("outcome")}, family="worker " + str(o.get("outcome")))
    out.cov["distinct_nontrivial"] = len(nt)
    out.cov["samples"] = samples
    out.cov["worker_hangs"] = st["hang"]
    for fl in fails:
        for f in fl["fails"]:
            if f["prop"] not in props:
                continue
            viac = " (in a working copy of the store)" if (origin.get(fl["line"]) or {}).get("via") == "clone" else ""
            why = "%s [%s]%s %s %s" % (f["prop"], f["store"], viac, f["why"], (f.get("msg") or "")[:90])
            out.fail(f.get("kf", "NEW"), why, {"src": fl["src"], "run_case": origin.get(fl["line"]), "store": f["store"], "why": f["why"], "status": f["status"], "msg": f.get("msg", ""),
                                               "expected_value": fl.get("expv"), "expected_log": fl.get("explog"), "got": f.get("got"), "got_log": f.get("gotlog")},
                     family="%s [%s] %s %s" % (f["prop"], f["store"], f["why"], (f.get("msg") or "")[:60]))


def replay(out, path, props=("C01",)):
    """Re-decides one recorded case: the program text with its AST, input and host script is run again on both stores and validated by V_Run."""
    case = json.load(open(path))["case"].get("run_case")
    if not case:
        raise vlib.ToolError("the replay file carries no run_case (recorded by an older revision): re-run the full check")
    wd = vlib.workdir(out.pid)
    cases = os.path.join(wd, "cases.ndjson")
    vlib.write_ndjson(cases, [case])
    obs = os.path.join(wd, "obs.ndjson")
    st = vlib.run_workers("run", cases, 1, obs, timeout=20)
    decide(out, obs, props, 1, 1, st, "replay of one recorded case")
