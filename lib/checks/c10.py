"""C10 - one notion of truth; conditionals and logic evaluate only what they must (DESIGN.md 5/C10).
G: MC_Truth (every value type x every testing construct; invariant TruthIsUniform on the evaluator) and MC_Programs over a
   logic/conditional alphabet whose operands and arms are identifiers (host-observable).
R: harness `run` with a recording host resolver on both stores.
V: V_Run: value (boolean-ness, which arm) and the ORDER and COUNT of resolve calls equal the reference evaluator's."""
import json, os
import vlib
from checks import c01, progs

HOST = {"resolve": [{"key": "a", "value": {"t": "int", "v": 9}}, {"key": "b", "value": {"t": "false"}}], "apply": []}     # c is declined -> unit
HOST2 = {"resolve": [{"key": "a", "value": {"t": "unit"}}, {"key": "b", "value": {"t": "list", "v": []}}, {"key": "c", "value": {"t": "sym", "n": "k"}}], "apply": []}


def run(out, tier, seed):
    wd = vlib.workdir(out.pid)
    cases = os.path.join(wd, "cases.ndjson")
    ncases = 0
    tpath = os.path.join(wd, "truth.ndjson")
    nt, res = vlib.generate(out.pid, "MC_Truth", "MC_Truth", tpath)
    out.add_model(res)
    parts = ["truth table=%d" % nt]
    with open(cases, "w") as f:
        for p in vlib.read_ndjson(tpath):
            f.write(json.dumps({"src": progs.render(p["toks"]), "ast": p["ast"], "input": p["input"], "tag": "truth"}, separators=(",", ":")) + "\n")
            ncases += 1
        for cfg in (["MC_Programs_sc5"] if tier == "quick" else ["MC_Programs_sc5", "MC_Programs_sc7"]):
            pp = os.path.join(wd, cfg + ".ndjson")
            n = progs.generate_programs(out, cfg, pp, timeout=3000)
            parts.append("%s=%d" % (cfg, n))
            for p in vlib.read_ndjson(pp):
                for host in (HOST, HOST2):
                    f.write(json.dumps({"src": progs.render(p["toks"]), "ast": p["ast"], "host": host}, separators=(",", ":")) + "\n")
                    ncases += 1
    # && / || over an else-chain operand whose default ends in each boolean-producing operator (MC_LogicShapes)
    pp = os.path.join(wd, "MC_LogicShapes.ndjson")
    n = progs.generate_programs(out, "MC_LogicShapes", pp, module="MC_LogicShapes")
    parts.append("MC_LogicShapes=%d" % n)
    with open(cases, "a") as f:
        for p in vlib.read_ndjson(pp):
            f.write(json.dumps({"src": progs.render(p["toks"]), "ast": p["ast"]}, separators=(",", ":")) + "\n")
            ncases += 1
    obs = os.path.join(wd, "obs.ndjson")
    st = vlib.run_workers("run", cases, ncases, obs, timeout=20)
    # on this corpus a wrong value IS a truth / short-circuit failure, and so is a wrong call log
    c01.decide(out, obs, ("C01", "C17", "C10"), ncases, ncases, st,
               "truth table: every value representative x 10 testing programs (exhaustive); short-circuit: every logic/conditional AST over identifier operands "
               "up to the size bound x 2 scripted hosts that record resolve calls; " + ", ".join(parts))
    out.cov["exhaustive"] = True


def replay(out, path):
    c01.replay(out, path, ("C01", "C17", "C10"))
