"""C19 - compaction and cloning preserve everything reachable (DESIGN.md 5/C19).
G: Optimize.tla: an implementation-shaped model of BasicGarnishData::optimize (worklist of clone cells, copy in reverse order
   with an old-to-new map and the slide-down offset, retained prefix, extra roots); TLC explores every mutator history up to the
   bound followed by one or two compactions and checks Preserved on the model; every history is printed as a script.
   Seeded random value graphs (all value kinds, shared sub-values, values on both stacks, frames, symbol names, retention,
   roots that are already reachable from a stack, repeated compaction, clone_data).
R: harness `opt` carries the scripts out on a real BasicGarnishData and reads everything reachable back before and after;
   harness `run` with compaction injected before every instruction of running programs.
V: V_C19 compares the read-backs; V_Run / TraceVM must accept the injected runs exactly like the plain ones."""
import json, os, random, zlib
import vlib
from checks import c01, progs


def leaf(rnd):
    k = rnd.randrange(12)
    if k == 0:
        return {"t": "int", "v": rnd.choice([0, 1, 5, -7, 2147483647, -2147483647])}
    if k == 1:
        return {"t": "float", "s": rnd.choice(["0.5", "2.0", "1e300", "-0.25"])}
    if k == 2:
        return {"t": "sym", "n": rnd.choice(["a", "b", "key", "#0", "#18446744073709551615"])}
    if k == 3:
        return {"t": "str", "v": [ord(c) for c in rnd.choice(["", "s", "ab", "hé", "\U0001F600x"])]}
    if k == 4:
        return {"t": "bytes", "v": rnd.choice([[], [0], [1, 2, 255]])}
    if k == 5:
        return {"t": rnd.choice(["unit", "true", "false"])}
    if k == 6:
        return {"t": "char", "v": rnd.choice([97, 233, 128512])}
    if k == 7:
        return {"t": "byte", "v": rnd.choice([0, 7, 255])}
    if k == 8:
        return {"t": "symlist", "v": [{"t": "sym", "n": "a"}, {"t": "sym", "n": "b"}] + ([{"t": "int", "v": 3}] if rnd.random() < 0.5 else [])}
    if k == 9:
        return {"t": "ext", "v": rnd.choice([0, 3])}
    if k == 10:
        return {"t": "type", "v": rnd.choice(["Number", "List", "Unit"])}
    return {"t": "range", "l": {"t": "int", "v": rnd.choice([0, 1])}, "r": {"t": "int", "v": rnd.choice([2, 5])}}


def random_script(rnd):
    script, live = [], []          # live: ids that may be referenced
    nid = [0]

    def ref():
        return {"t": "ref", "id": rnd.choice(live)}

    def new(d):
        script.append({"op": "val", "id": nid[0], "d": d})
        live.append(nid[0])
        nid[0] += 1
    regs = vals = frames = 0
    steps = rnd.randint(3, 22)
    for _ in range(steps):
        k = rnd.randrange(20)
        if not live or k < 5:
            new(leaf(rnd))
        elif k < 7:
            new({"t": "pair", "l": ref(), "r": ref()})
        elif k < 9:
            new({"t": "pair", "l": {"t": "sym", "n": rnd.choice(["a", "b", "c", "key"])}, "r": ref()})
        elif k < 12:
            new({"t": "list", "v": [ref() for _ in range(rnd.randint(0, 5))]})
        elif k == 12:
            new({"t": "concat", "l": ref(), "r": ref()})
        elif k == 13:
            new({"t": rnd.choice(["partial", "slice"]), "l": ref(), "r": {"t": "range", "l": {"t": "int", "v": 0}, "r": {"t": "int", "v": 1}}} if rnd.random() < 0.5 else {"t": "partial", "l": ref(), "r": ref()})
        elif k == 14:
            script.append({"op": "reg", "id": rnd.choice(live)})
            regs += 1
        elif k == 15:
            script.append({"op": "pushval", "id": rnd.choice(live)})
            vals += 1
        elif k == 16:
            if regs and rnd.random() < 0.5:
                script.append({"op": "popreg"})
                regs -= 1
            elif vals:
                script.append({"op": "popval"})
                vals -= 1
        elif k == 17:
            script.append({"op": "frame", "v": rnd.randint(0, 9)})
            frames += 1
        elif k == 18:
            script.append({"op": "symname", "id": nid[0], "n": rnd.choice(["alpha", "beta", "héllo", "x"])})
            live.append(nid[0])
            nid[0] += 1
        else:
            if not any(s["op"] == "retain" for s in script):
                script.append({"op": "retain"})
    # collect: extra roots drawn from everything, including values that are already on a stack
    onstack = [s["id"] for s in script if s["op"] in ("reg", "pushval")]
    pool = live + onstack
    roots = [rnd.choice(pool) for _ in range(rnd.randint(0, 3))] if pool else []
    if live and rnd.random() < 0.4:
        script.append({"op": "clone", "id": rnd.choice(live)})
    script.append({"op": "gc", "roots": roots})
    if rnd.random() < 0.6:
        script.append({"op": "gc", "roots": roots if rnd.random() < 0.5 else []})
    if roots and rnd.random() < 0.5:
        script.append({"op": "clone", "id": roots[0]})
        script.append({"op": "val", "id": nid[0], "d": {"t": "pair", "l": {"t": "ref", "id": roots[0]}, "r": {"t": "int", "v": 9}}})
        script.append({"op": "gc", "roots": [nid[0]]})
    return script


def run(out, tier, seed):
    wd = vlib.workdir(out.pid)
    rnd = random.Random(seed)
    cases = os.path.join(wd, "cases.ndjson")
    counts = {}
    # (1) the collector model: every history up to the bound, replayed; larger bound checked on the model and sampled for replay
    n1, res = vlib.generate(out.pid, "Optimize", "MC_Optimize_q3", cases, timeout=3000)
    out.add_model(res)
    counts["exhaustive histories (<=3 operations)"] = n1
    big = os.path.join(wd, "big.ndjson")
    keep = 12 if tier == "quick" else 4

    def sample(p):
        return p if zlib.crc32(json.dumps(p["script"], sort_keys=True).encode()) % keep == 0 else None
    n2, res = vlib.generate(out.pid, "Optimize", "MC_Optimize_q" if tier == "quick" else "MC_Optimize_t", big, transform=sample, timeout=6000, xmx="12g")
    out.add_model(res)
    counts["sampled histories of the larger bound (1 in %d)" % keep] = n2
    nr = 6000 if tier == "quick" else 150000
    with open(cases, "a") as f:
        for l in open(big):
            f.write(l)
        for _ in range(nr):
            f.write(json.dumps({"script": random_script(rnd), "kind": "random"}, separators=(",", ":")) + "\n")
    counts["seeded random value graphs"] = nr
    total = n1 + n2 + nr
    obs = os.path.join(wd, "obs.ndjson")
    st = vlib.run_workers("opt", cases, total, obs, timeout=30)
    fails, states, _ = vlib.validate(out.pid, "V_C19", obs, chunk=6000, workers=1)
    acc = len([s for s in vlib.LAST_STATS if s.get("accepted")])
    out.cov["states"] += states
    out.cov["evaluations"] = total
    out.cov["traces_validated_against_impl"] = total
    out.cov["distinct_nontrivial"] = acc
    out.cov["worker_hangs"] = st["hang"]
    report(out, fails, obs)
    # (2) compaction injected before every instruction of running programs
    pcases, ncases, nprogs, desc = c01.corpus(out, tier, seed, os.path.join(wd), trace=False, light=True, extra={"inject": True, "stores": "basic"})
    pobs = os.path.join(wd, "pobs.ndjson")
    st2 = vlib.run_workers("run", pcases, ncases, pobs, timeout=40)
    inj = 0
    for o in vlib.read_ndjson(pobs):
        for r in o.get("runs", []):
            inj += r.get("injections", 0)
    sub = vlib.Outcome(out.pid, out.tier, out.seed)
    c01.decide(sub, pobs, ("C01", "C06", "C19"), ncases, nprogs, st2, "")
    for why, case in sub.violations:
        out.fail("NEW", "with compaction injected before every instruction: " + why, case, family="injected: " + why.split(" ", 2)[-1][:80])
    for kf, (n, ex) in sub.known.items():
        for _ in range(n):
            out.fail(kf, "injected run", ex)
    out.cov["states"] += sub.cov["states"]
    out.cov["injected_programs"] = ncases
    out.cov["injected_compactions"] = inj
    out.cov["exhaustive"] = True
    out.cov["rule"] = ("scripts: " + ", ".join("%s=%d" % kv for kv in counts.items()) + "; each carried out on a real BasicGarnishData with everything reachable read back before and after every compaction; "
                       "non-trivial = the script ran and contains at least one compaction or clone. programs: %d runs of the shared corpus (%s) on BasicGarnishData with optimize(&[]) before EVERY instruction "
                       "(%d compactions), decided by the same V_Run oracle as C01/C06" % (ncases, desc, inj))


def report(out, fails, obs):
    failing = {fl["line"] for fl in fails}
    origin, samples = {}, []
    scripterr = 0
    for ln, o in enumerate(vlib.read_ndjson(obs)):
        if o.get("outcome") == "notrun":
            continue
        if o.get("outcome") in ("hang", "abort", "harness_panic"):
            out.fail("NEW", "worker %s during a compaction script" % o.get("outcome"), o.get("input_case"), family="worker " + str(o.get("outcome")))
            continue
        if o.get("status") == "scripterr":
            scripterr += 1
        if ln in failing:
            origin[ln] = {"script": o.get("script")}
        if len(samples) < 4 and o.get("case", 0) % 7001 == 5 and o.get("events"):
            samples.append({"script": o["script"], "sizes": [(e.get("size_before"), e.get("size_after")) for e in o["events"] if e["ev"] == "gc"]})
    out.cov["scripts_not_carried_out"] = scripterr
    out.cov["samples"] = samples
    for fl in fails:
        for why in fl["fails"]:
            out.fail("NEW", why, {"why": why, "opt_case": origin.get(fl["line"])}, family=why.split(" (")[0])


def replay(out, path):
    case = json.load(open(path))["case"]
    if "opt_case" in case and case["opt_case"]:
        wd = vlib.workdir(out.pid)
        cases = os.path.join(wd, "cases.ndjson")
        vlib.write_ndjson(cases, [case["opt_case"]])
        obs = os.path.join(wd, "obs.ndjson")
        vlib.run_workers("opt", cases, 1, obs, timeout=30)
        fails, states, _ = vlib.validate(out.pid, "V_C19", obs, workers=1)
        out.cov.update({"states": max(out.cov["states"], 1), "evaluations": 1, "samples": [case["opt_case"]]})
        report(out, fails, obs)
    else:
        c01.replay(out, path, ("C01", "C06", "C19"))
