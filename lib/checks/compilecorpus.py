"""Shared plumbing of the compile-pipeline checks C03, C04, C05: corpora (token-class sequences of MC_TokenSeq, the lexer
strings of Lexer.tla, the core-language programs of MC_Programs, repeated patterns for the growth bound), harness `compile`,
validator V_Compile."""
import json, os, random
import vlib
from checks import progs

PATTERNS = ["5 + ", "( 5 ) ", "5 , ", "-- ", "5 ~~ ", "{ 5 } ~~ ; ", "5 = ", "( ", "{ ", "[ 5 ] ", "5 ?> 6 |> ", "a . b . ", "5\n\n", "5 @x ", "5 5 ", "\"s\" ", "5 && "]
TAILS = {"5 + ": "5", "5 , ": "5", "-- ": "5", "5 = ": "5", "( ": "5", "{ ": "5", "5 ?> 6 |> ": "7", "a . b . ": "c", "5 && ": "5"}


def build_corpus(out, tier, seed, wd, dump, kinds=("tokseq", "lexer", "programs", "growth", "soup")):
    cases = os.path.join(wd, "cases.ndjson")
    n = 0
    parts = []
    rnd = random.Random(seed)
    with open(cases, "w") as f:
        def emit(c):
            nonlocal n
            c["dump"] = dump
            f.write(json.dumps(c, separators=(",", ":")) + "\n")
            n += 1
        if "tokseq" in kinds:
            quick_cfgs = ["MC_TokenSeq_q3", "MC_TokenSeq_q4", "MC_TokenSeq_se5", "MC_TokenSeq_sep5", "MC_TokenSeq_sep6d", "MC_TokenSeq_ann4"] if not dump else ["MC_TokenSeq_q3", "MC_TokenSeq_grp5", "MC_TokenSeq_bal6", "MC_TokenSeq_sep5d", "MC_TokenSeq_sep6d", "MC_TokenSeq_ann4d"]
            for cfg in (quick_cfgs if tier == "quick" else ["MC_TokenSeq_t4", "MC_TokenSeq_t3all", "MC_TokenSeq_t5", "MC_TokenSeq_bal7", "MC_TokenSeq_grp5", "MC_TokenSeq_sep5", "MC_TokenSeq_sep6d", "MC_TokenSeq_ann4"]):
                pp = os.path.join(wd, cfg + ".ndjson")
                cnt, res = vlib.generate(out.pid, "MC_TokenSeq", cfg, pp, timeout=3000)
                out.add_model(res)
                parts.append("%s=%d" % (cfg, cnt))
                for p in vlib.read_ndjson(pp):
                    emit({"src": "".join(a + b for a, b in p["parts"]).rstrip(" "), "tag": "tokseq"})
        if "lexer" in kinds:
            for cfg in (["MC_Lexer_q3", "MC_Lexer_ws5"] if tier == "quick" else ["MC_Lexer_t4", "MC_Lexer_ws5", "MC_Lexer_str5", "MC_Lexer_num5"]):
                pp = os.path.join(wd, cfg + ".ndjson")
                cnt, res = vlib.generate(out.pid, "Lexer", cfg, pp, timeout=3000)
                out.add_model(res)
                parts.append("%s=%d" % (cfg, cnt))
                for p in vlib.read_ndjson(pp):
                    emit({"input": p["input"], "tag": "chars"})
        if "programs" in kinds:
            for cfg in (["MC_Programs_q3", "MC_Programs_chains7", "MC_Programs_sc5", "MC_Programs_conds5", "MC_Programs_calls6", "MC_Programs_host4", "MC_Programs_ticks4", "MC_Programs_seqs4", "MC_Programs_partial5"] if tier == "quick"
                        else ["MC_Programs_t4", "MC_Programs_conds6", "MC_Programs_lists5", "MC_Programs_calls8", "MC_Programs_sc7", "MC_Programs_host5", "MC_Programs_arith5", "MC_Programs_ticks5", "MC_Programs_seqs5", "MC_Programs_partial6", "MC_Programs_casts6", "MC_Programs_paths5"]):
                pp = os.path.join(wd, cfg + ".ndjson")
                cnt = progs.generate_programs(out, cfg, pp, timeout=3000)
                parts.append("%s=%d" % (cfg, cnt))
                for p in vlib.read_ndjson(pp):
                    emit({"src": progs.render(p["toks"]), "ast": p["ast"], "tag": "program"})
                    if "seq" in p["ast"]:
                        emit({"src": progs.render(p["toks"], sep="\n\n"), "ast": p["ast"], "tag": "program"})
        if "growth" in kinds:
            for pat in PATTERNS:
                for k in ([10, 100, 3000] if tier == "quick" else [10, 100, 1000, 10000]):
                    emit({"src": pat * k + TAILS.get(pat, ""), "tag": "growth", "pattern": pat, "k": k})
        if "soup" in kinds:
            alphabet = list("5a+-*=.,;:()[]{}~?!|<>&^#_$@`\"' \n\t\\") + ["é", "😀", "\r", "\x01", "\u00a0", "\u2028", "\u00a0\n", "\u2028\n", "5.5", "--", "~~", "?>", "|>", ";;", "\n\n", " "]
            for _ in range(300 if tier == "quick" else 5000):
                k = rnd.choice([20, 60, 200, 1000] if tier == "quick" else [20, 200, 2000, 20000])
                emit({"src": "".join(rnd.choice(alphabet) for _ in range(k)), "tag": "soup"})
    return cases, n, ", ".join(parts)


def observe(out, cases, n, wd, timeout=30):
    obs = os.path.join(wd, "obs.ndjson")
    # Rust's default thread stack: a host that compiles on an ordinary thread has no more
    st = vlib.run_workers("compile", cases, n, obs, timeout=timeout, env={"GVERIF_STACK_MB": "2"})
    return obs, st


def validate(out, obs):
    fails, states, _ = vlib.validate(out.pid, "V_Compile", obs, chunk=6000, workers=1)
    out.cov["states"] += states
    return fails
