"""C02 - precedence, associativity and grouping follow the operator table (DESIGN.md 5/C02).
G: MC_ParserOps grows every expression with up to K operators over the operator table (binary, prefix, suffix, implicit space
   list in every operand-end/operand-start adjacency, comma, conditional, apply forms) and checks on the reference parser that
   parenthesising what the table implies is idempotent.
R: harness `parse`: real lex + parse of the spaced spelling, of a tight spelling (blanks removed where the lexer still yields
   the same tokens) and of the fully parenthesised twin.
V: V_C02: tree of the real node table (groups stripped) = RefParse!RefTree(tokens), whose table is frozen in OperatorTable.tla."""
import json, os
import vlib


def tight(toks):
    """Remove blanks between tokens where that cannot change the token stream: the driver only proposes; the real lexer's
    output for the tight text is compared with the intended token texts by the harness-side filter below."""
    out = ""
    prev = None
    for t in toks:
        txt = t["txt"]
        if prev is not None:
            # an implicit list needs its blank; everything else is glued
            ends = prev["k"] in ("v", "close") or prev["fix"] == "suf"
            starts = t["k"] in ("v", "open") or t["fix"] == "pre"
            out += " " if (ends and starts) else ""
        out += txt
        prev = t
    return out


def run(out, tier, seed):
    wd = vlib.workdir(out.pid)
    cases = os.path.join(wd, "cases.ndjson")
    n = 0
    parts = []
    with open(cases, "w") as f:
        for cfg in (["MC_ParserOps_pairs", "MC_ParserOps_reps3"] if tier == "quick" else ["MC_ParserOps_all3", "MC_ParserOps_reps4"]):
            pp = os.path.join(wd, cfg + ".ndjson")
            seen = set()

            def tr(p):
                k = tuple(t["txt"] + t["k"] for t in p["toks"])
                if k in seen:
                    return None
                seen.add(k)
                return p
            cnt, res = vlib.generate(out.pid, "MC_ParserOps", cfg, pp, transform=tr, timeout=3000)
            out.add_model(res)
            parts.append("%s=%d" % (cfg, cnt))
            for p in vlib.read_ndjson(pp):
                spaced = " ".join(t["txt"] for t in p["toks"])
                f.write(json.dumps({"src": spaced, "toks": p["toks"], "variant": "spaced"}, separators=(",", ":")) + "\n")
                f.write(json.dumps({"src": " ".join(p["ptoks"]), "toks": p["toks"], "variant": "paren"}, separators=(",", ":")) + "\n")
                f.write(json.dumps({"src": tight(p["toks"]), "toks": p["toks"], "variant": "tight", "want": [t["txt"] for t in p["toks"]]}, separators=(",", ":")) + "\n")
                # every value in its own parentheses (a space list then meets an opening bracket at every item), and the whole
                # expression as the second sub-expression after a separator (`;` / a blank line): the tree must not change
                if not (cfg.endswith("pairs") or cfg.endswith("all3") or n % 4 == 0):      # all of the all-operators config, a quarter of the deeper one
                    n += 3
                    continue
                f.write(json.dumps({"src": " ".join(("( %s )" % t["txt"]) if t["k"] == "v" else t["txt"] for t in p["toks"]), "toks": p["toks"], "variant": "vparen"}, separators=(",", ":")) + "\n")
                f.write(json.dumps({"src": ("7 ; " if n % 8 else "7\n\n") + spaced, "toks": p["toks"], "variant": "aftersep"}, separators=(",", ":")) + "\n")
                n += 5
    obs_all = os.path.join(wd, "obs_all.ndjson")
    st = vlib.run_workers("parse", cases, n, obs_all, timeout=15)
    # tight spellings whose real token stream is not the intended one (e.g. `5 . 5` glued to `5.5`) are a different program: dropped
    obs = os.path.join(wd, "obs.ndjson")
    kept = dropped = 0
    with open(obs, "w") as g:
        for o in vlib.read_ndjson(obs_all):
            if o.get("variant") == "tight":
                got = ["".join(chr(c) for c in t["text"]) for t in o.get("toks_lexed", []) if t["ty"] != "Whitespace"]
                if got != o.get("want"):
                    dropped += 1
                    continue
            kept += 1
            g.write(json.dumps(o, separators=(",", ":")) + "\n")
    decide(out, obs, kept, st, "expressions by generator config: " + ", ".join(parts) + "; each in a spaced, a tight (%d dropped: gluing changed the tokens), a fully parenthesised and a every-value-parenthesised spelling, and as second sub-expression after `;` / a blank line" % dropped)
    out.cov["exhaustive"] = True


def decide(out, obs, n, st, rule):
    fails, states, _ = vlib.validate(out.pid, "V_C02", obs, chunk=4000, workers=1)
    out.cov["states"] += states
    out.cov["evaluations"] = n
    out.cov["traces_validated_against_impl"] = n
    multi = set()
    samples = []
    for o in vlib.read_ndjson(obs):
        if o.get("outcome") == "notrun":
            continue
        if o.get("outcome") in ("hang", "abort", "harness_panic"):
            out.fail("NEW", "worker %s while parsing" % o.get("outcome"), o.get("input_case"))
            continue
        ops = [t["d"] for t in o["toks"] if t["k"] == "op"]
        if len(set(ops)) >= 2:
            multi.add(o["src"])
        if len(samples) < 4 and o.get("case", 0) % 997 == 1 and "nodes" in o:
            samples.append({"src": o["src"], "nodes": [(x["d"], x["l"], x["r"]) for x in o["nodes"]], "root": o["root"]})
    out.cov["distinct_nontrivial"] = len(multi)
    out.cov["samples"] = samples
    out.cov["rule"] = rule + "; non-trivial = a spelling with at least two different operators"
    failing = {fl["line"] for fl in fails}
    origin = {}
    if failing:
        for ln, o in enumerate(vlib.read_ndjson(obs)):
            if ln in failing:
                origin[ln] = {k: o[k] for k in ("src", "toks", "variant", "want") if k in o}
    for fl in fails:
        out.fail(fl.get("kf", "NEW"), "%s: %r" % (fl["why"], fl["src"]), {"src": fl["src"], "variant": fl["variant"], "why": fl["why"], "expected": fl["expected"], "got": fl["got"],
                                                                        "parse_case": origin.get(fl["line"])}, family=fl["why"])


def replay(out, path):
    case = json.load(open(path))["case"].get("parse_case")
    if not case:
        raise vlib.ToolError("the replay file carries no parse_case: re-run the full check")
    wd = vlib.workdir(out.pid)
    cases = os.path.join(wd, "cases.ndjson")
    vlib.write_ndjson(cases, [case])
    obs = os.path.join(wd, "obs.ndjson")
    st = vlib.run_workers("parse", cases, 1, obs, timeout=15)
    decide(out, obs, 1, st, "replay of one recorded case")
