"""C14 - literals denote exactly what they spell (DESIGN.md 5/C14).
G: MC_Literals enumerates (value, spelling form) cases with Literals.tla's Spell* operators: integers in every radix 2..36 with
   separators, exact binary fractions as decimals, all short character sequences (ASCII, blanks, line breaks, quotes, backslash,
   2-/3-/4-byte characters) in 1-/3-/4-quote forms with raw / escaped / \\u{..} encodings, byte vectors in character and numeric
   form, symbols.  Seeded random finite floats are spelled by their shortest decimal form (driver side, see assumptions).
R: harness `lit`: each spelling compiled as a one-literal program and evaluated on both stores.
V: V_C14: the value read back is exactly the value the spelling was built from."""
import json, os, random
import vlib


def run(out, tier, seed):
    wd = vlib.workdir(out.pid)
    cases = os.path.join(wd, "cases.ndjson")

    def tr(p):
        p["input"] = p.pop("src")
        if p["kind"] == "sym":
            p["symname"] = "".join(chr(c) for c in p["name"])
        return p
    n, res = vlib.generate(out.pid, "MC_Literals", "MC_Literals_%d" % (2 if tier == "quick" else 3), cases, transform=tr)
    out.add_model(res)
    rnd = random.Random(seed)
    nf = 0
    with open(cases, "a") as f:
        for _ in range(300 if tier == "quick" else 20000):
            x = rnd.choice([rnd.random(), rnd.uniform(0, 1e6), rnd.uniform(0, 1e-4), float(rnd.randint(0, 10**12)) / rnd.choice([1, 8, 1000, 3])])
            s = repr(x)
            if "e" in s or "inf" in s or "nan" in s:
                continue
            f.write(json.dumps({"kind": "float", "input": [ord(c) for c in s], "s": s}) + "\n")
            nf += 1
    total = n + nf
    obs = os.path.join(wd, "obs.ndjson")
    st = vlib.run_workers("lit", cases, total, obs, timeout=15)
    decide(out, obs, total, st, n, nf)
    out.cov["exhaustive"] = True


def decide(out, obs, total, st, n, nf):
    fails, states, _ = vlib.validate(out.pid, "V_C14", obs, chunk=6000, workers=1)
    out.cov["states"] += states
    out.cov["evaluations"] = total
    out.cov["traces_validated_against_impl"] = 2 * total
    nontriv = 0
    samples = []
    for o in vlib.read_ndjson(obs):
        if o.get("outcome") == "notrun":
            continue
        if o.get("outcome") in ("hang", "abort", "harness_panic"):
            out.fail("NEW", "worker %s on a literal" % o.get("outcome"), o.get("input_case"))
            continue
        src = o.get("input", [])
        if any(c > 127 or c == 92 for c in src) or 95 in src:
            nontriv += 1
        if len(samples) < 5 and o.get("case", 0) % 1201 == 3:
            samples.append({"literal": "".join(chr(c) for c in src), "kind": o.get("kind"), "values": [r.get("value", r.get("status")) for r in o.get("runs", [])]})
    out.cov["distinct_nontrivial"] = nontriv
    out.cov["samples"] = samples
    out.cov["rule"] = ("%d (value, spelling) cases enumerated by MC_Literals (exhaustive over its value sets, radices 2..36, forms and encodings) + %d seeded random floats in shortest "
                       "decimal form; non-trivial = the spelling contains an escape, a separator or a non-ASCII character") % (n, nf)
    out.assumptions += ["random floats: the shortest decimal form is produced by Python's repr and compared textually with Rust's {:?} of the value read back (binary64 parsing/printing itself is trusted)"]
    failing = {fl["line"] for fl in fails}
    origin = {}
    if failing:
        for ln, o in enumerate(vlib.read_ndjson(obs)):
            if ln in failing:
                origin[ln] = {k: v for k, v in o.items() if k not in ("runs", "case")}
    for fl in fails:
        txt = "".join(chr(c) for c in fl["src"])
        for f in fl["fails"]:
            out.fail(f.get("kf", "NEW"), "[%s] %s literal %r: %s %s" % (f["store"], fl["kind"], txt, f["why"], (f.get("msg") or "")[:80]),
                     {"literal": txt, "input": fl["src"], "kind": fl["kind"], "store": f["store"], "why": f["why"], "got": f.get("got"), "msg": f.get("msg"), "lit_case": origin.get(fl["line"])},
                     family="[%s] %s: %s %s" % (f["store"], fl["kind"], f["why"], (f.get("msg") or "")[:40]))


def replay(out, path):
    case = json.load(open(path))["case"].get("lit_case")
    if not case:
        raise vlib.ToolError("the replay file carries no lit_case: re-run the full check")
    wd = vlib.workdir(out.pid)
    cases = os.path.join(wd, "cases.ndjson")
    vlib.write_ndjson(cases, [case])
    obs = os.path.join(wd, "obs.ndjson")
    st = vlib.run_workers("lit", cases, 1, obs, timeout=15)
    decide(out, obs, 1, st, 1, 0)
