"""C09 - number arithmetic is exact or unit, never wrapped (DESIGN.md 5/C09).
G: MC_NumberSmall (range-safe formulas = mathematical definition, all pairs, W = 4/6/8) validates the oracle;
   MC_Number32 enumerates the i32 boundary lattice x operations and the float/mixed dyadic lattice.
R: harness `num`: GarnishNumber method on SimpleNumber + the instruction on both stores.
V: V_C09: NumberProps!Expect recomputed by TLC from each observed case and compared with all three results."""
import os, random
import vlib


def run(out, tier, seed):
    wd = vlib.workdir(out.pid)
    # oracle validation at small widths (exhaustive)
    for w in ([4, 6] if tier == "quick" else [4, 6, 8]):
        r = vlib.run_tlc(out.pid, "MC_NumberSmall", cfg="MC_NumberSmall_W%d" % w, workers=vlib.NCPU, timeout=1800)
        if r.rc != 0 or r.invariant_violated:
            raise vlib.ToolError("Number.tla: range-safe formulas disagree with the mathematical definition at W=%d\n%s" % (w, r.out[-2000:]))
        out.add_model(r)
    cases = os.path.join(wd, "cases.ndjson")
    n, r = vlib.generate(out.pid, "MC_Number32", "MC_Number32_" + tier, cases, timeout=3000)
    out.add_model(r)
    # random i32 pairs and random shift counts (seeded), validated the other way round: the harness records, TLC decides
    rnd = random.Random(seed)
    ops2 = ["Add", "Subtract", "Multiply", "Divide", "IntegerDivide", "Remainder", "Power", "BitwiseAnd", "BitwiseOr", "BitwiseXor",
            "BitwiseShiftLeft", "BitwiseShiftRight"]
    nrand = 20000 if tier == "quick" else 1000000
    with open(cases, "a") as f:
        import json
        for _ in range(nrand):
            op = rnd.choice(ops2)
            a = rnd.randint(-2**31, 2**31 - 1)
            b = rnd.randint(-2**31, 2**31 - 1) if rnd.random() < 0.6 else rnd.randint(-40, 40)
            f.write(json.dumps({"op": op, "a": {"t": "int", "v": a}, "b": {"t": "int", "v": b}, "rand": True}, separators=(",", ":")) + "\n")
    total = n + nrand
    obs = os.path.join(wd, "obs.ndjson")
    st = vlib.run_workers("num", cases, total, obs, timeout=20)
    fails, states, _ = vlib.validate(out.pid, "V_C09", obs, chunk=6000, workers=1)
    out.cov["states"] += states
    out.cov["evaluations"] = total
    out.cov["traces_validated_against_impl"] = total
    out.cov["exhaustive"] = True
    out.cov["rule"] = ("cases = (operation, a, b): the i32 boundary lattice of MC_Number32 (exhaustive; %d cases incl. float/mixed dyadic lattice) "
                       "+ %d seeded random i32 pairs; each case is run 3 ways (SimpleNumber method, instruction on Simple, on Basic). "
                       "non-trivial = the oracle's answer is unit (overflow, zero divisor, bad shift count, ...) or an operand is a float") % (n, nrand)
    nontrivial = 0
    samples = []
    for o in vlib.read_ndjson(obs):
        m = o.get("method", {})
        isunit = m.get("k") == "val" and m["v"].get("t") == "unit"
        if isunit or o.get("an", {}).get("t") == "float" or o.get("bn", {}).get("t") == "float" or m.get("k") == "panic":
            nontrivial += 1
        if len(samples) < 4 and (isunit or o.get("case", 0) % 9973 == 0):
            samples.append({k: o.get(k) for k in ("op", "a", "b", "method", "simple", "basic")})
        if o.get("outcome") == "notrun":
            continue
        if o.get("outcome") in ("hang", "abort", "harness_panic"):
            out.fail("NEW", "worker %s on a number operation" % o.get("outcome"), o)
    out.cov["distinct_nontrivial"] = nontrivial
    out.cov["samples"] = samples
    out.cov["worker_hangs"] = st["hang"]
    out.assumptions += ["binary64 rounding of float results is not specified in TLA+: float results are pinned exactly only on the dyadic lattice where no rounding occurs, elsewhere only their class (finite float / unit)",
                        "TLC's own integers are 32 bit: the oracle is written with range-safe formulas, validated against the unbounded definition at W = 4, 6 (, 8)"]
    for fl in fails:
        for f in fl["fails"]:
            out.fail(f.get("kf", "NEW"), "%s %s: expected %s, observed %s" % (fl["op"], f["site"], f["expected"], f["observed"]),
                     {"op": fl["op"], "a": fl["a"], "b": fl["b"], "site": f["site"], "expected": f["expected"], "observed": f["observed"]})


def replay(out, path):
    import json
    case = json.load(open(path))["case"]
    wd = vlib.workdir(out.pid)
    cases = os.path.join(wd, "cases.ndjson")
    vlib.write_ndjson(cases, [{"op": case["op"], "a": case["a"], "b": case["b"]}])
    obs = os.path.join(wd, "obs.ndjson")
    vlib.run_workers("num", cases, 1, obs)
    fails, states, _ = vlib.validate(out.pid, "V_C09", obs)
    out.cov["states"] = states or 1
    out.cov["transitions"] = 1
    out.cov["evaluations"] = 1
    out.cov["samples"] = [case]
    for fl in fails:
        for f in fl["fails"]:
            out.fail(f.get("kf", "NEW"), "%s %s: expected %s, observed %s" % (fl["op"], f["site"], f["expected"], f["observed"]), case)
