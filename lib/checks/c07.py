"""C07 - executing a built program never panics the host (DESIGN.md 5/C07).
G: MC_Boundary (operator templates x boundary literals) and the shared program corpus (MC_Programs).
R: harness `run`: every program stepped under catch_unwind on both stores, with and without host callbacks installed.
V: V_C07: no run has status panic (and no worker was killed by / hung in a step)."""
import json, os
import vlib
from checks import c01, progs


def run(out, tier, seed):
    wd = vlib.workdir(out.pid)
    bpath = os.path.join(wd, "boundary.ndjson")
    nb, res = vlib.generate(out.pid, "MC_Boundary", "MC_Boundary_" + tier, bpath)
    out.add_model(res)
    cases, ncases, nprogs, desc = c01.corpus(out, tier, seed, wd, light=(tier == "quick"))
    host = {"resolve": [{"key": "a", "value": {"t": "int", "v": 2147483647}}, {"key": "b", "value": {"t": "list", "v": []}}], "apply": []}
    with open(cases, "a") as f:
        k = 0
        slow_seen = 0
        for p in vlib.read_ndjson(bpath):
            # inputs that match the open finding C07-huge-span-materialised cost one watchdog period each: only a sample is
            # executed (enough to see whether the finding still reproduces), DESIGN.md 6
            t = p["tag"]
            if t.get("k") == "slice" and (t.get("lo") == ["--", "2147483647"] or t.get("hi") == ["2147483647"]) and t.get("f", [""])[0] == "~#":
                if p["toks"][:7] != ["(", "(", "1", "2", "3", ")", "<~"]:
                    continue
                slow_seen += 1
                if slow_seen > (2 if tier == "quick" else 6):
                    continue
            c = {"src": " ".join(p["toks"]), "max_steps": 400, "tag": p["tag"]}
            if k % 2 == 1:
                c["host"] = host          # half of the boundary programs run with callbacks installed
            f.write(json.dumps(c, separators=(",", ":")) + "\n")
            k += 1
            ncases += 1
    # deeply nested data (the statement names it): values nested a few hundred / thousand levels deep, built through the data interface
    # (pairs to the left and to the right, lists in lists, concatenations both ways, slices of slices), under every operation that walks data
    DEEP = ["$ == $", "$ < $", "$ ~# \"\"", "$ ~# ( 1 2 )", "$ .|", "$ . 0", "( $ <> $ ) == $", "$ . :a", "( $ <~ ( 0 .. 1 ) ) == $", "( $ <> 5 ) .|", "( $ <> 5 ) . 3",
            "( $ <> 5 ) ~# ( 1 2 )", "#$", "$ != ( $ 5 )", "$ ._", "_. $"]
    with open(cases, "a") as f:
        for kind in ("pairl", "pairr", "list", "concatl", "concatr", "slice"):
            for depth in ((300,) if tier == "quick" else (300, 3000)):
                for src in DEEP:
                    f.write(json.dumps({"src": src, "input": {"t": "deep", "k": kind, "depth": depth}, "max_steps": 400, "tag": {"k": "deep"}}, separators=(",", ":")) + "\n")
                    ncases += 1
    obs = os.path.join(wd, "obs.ndjson")
    st = vlib.run_workers("run", cases, ncases, obs, timeout=25 if tier == "quick" else 60)
    fails, states, _ = vlib.validate(out.pid, "V_C07", obs, chunk=6000, workers=1)
    out.cov["states"] += states
    out.cov["evaluations"] = ncases
    out.cov["traces_validated_against_impl"] = 2 * ncases
    out.cov["exhaustive"] = True
    executed = 0
    errs = 0
    samples = []
    for o in vlib.read_ndjson(obs):
        for r in o.get("runs", []):
            if r.get("status") in ("ok", "err", "steps", "panic"):
                executed += 1
            if r.get("status") == "err":
                errs += 1
        if len(samples) < 5 and o.get("case", 0) % 4001 == 0 and "runs" in o:
            samples.append({"src": o["src"], "status": [r.get("status") for r in o["runs"]]})
    out.cov["distinct_nontrivial"] = executed
    out.cov["runs_ending_in_err"] = errs
    out.cov["samples"] = samples
    out.cov["worker_hangs"] = st["hang"]
    out.cov["worker_aborts"] = st["abort"]
    out.cov["rule"] = ("%d boundary programs of MC_Boundary (exhaustive over its literal and operator sets) + the shared corpus (%s); non-trivial = a (program, store) pair "
                       "that built and was actually stepped") % (nb, desc)
    for fl in fails:
        for f in fl["fails"]:
            why = "C07 [%s] %s: %s" % (f["store"], f["why"], f.get("msg", "")[:100])
            out.fail(f.get("kf", "NEW"), why, {"src": fl["src"], "store": f["store"], "status": f["why"], "msg": f.get("msg", "")},
                     family="C07 [%s] %s %s" % (f["store"], f["why"], f.get("msgk", "")))


def replay(out, path):
    case = json.load(open(path))["case"]
    wd = vlib.workdir(out.pid)
    cases = os.path.join(wd, "cases.ndjson")
    vlib.write_ndjson(cases, [{"src": case["src"], "max_steps": 400}])
    obs = os.path.join(wd, "obs.ndjson")
    vlib.run_workers("run", cases, 1, obs, timeout=25)
    fails, states, _ = vlib.validate(out.pid, "V_C07", obs)
    out.cov.update({"states": max(states, 1), "transitions": 1, "evaluations": 1, "samples": [case]})
    for fl in fails:
        for f in fl["fails"]:
            out.fail(f.get("kf", "NEW"), "C07 [%s] %s: %s" % (f["store"], f["why"], f.get("msg", "")[:100]), case)
