"""C20 - programs built into a shared data object do not disturb each other (DESIGN.md 5/C20).
G: MC_MultiBuild enumerates every schedule of builds (every order) and interleaved executions of K program slots into one
   abstract data object (MultiBuild.tla) and checks that segments stay apart and earlier segments never move; the slots are
   filled with programs from the shared MC_Programs corpus (programs with jumps, nested expressions, constants).
R: harness `multi`: one real data object per implementation and schedule; dumps of every built program after every event.
V: V_C20 steps MultiBuild.tla along the observed events and checks conformance, own pieces, earlier programs untouched,
   same result as built alone."""
import itertools, json, os, random
import vlib
from checks import progs


def schedules(out, cfg, wd):
    p = os.path.join(wd, cfg + ".ndjson")
    seen = set()

    def tr(x):
        key = (tuple((e["k"], e["p"]) for e in x["sched"]), x["residue"])
        if key in seen:
            return None
        seen.add(key)
        return {"sched": [[e["k"], e["p"]] for e in x["sched"]], "residue": x["residue"]}
    n, res = vlib.generate(out.pid, "MC_MultiBuild", cfg, p, transform=tr)
    out.add_model(res)
    return list(vlib.read_ndjson(p))


def program_pool(out, tier, wd):
    pool = []
    cfgs = ["MC_Programs_q3", "MC_Programs_calls6", "MC_Programs_conds5"] if tier == "quick" else ["MC_Programs_t3", "MC_Programs_calls6", "MC_Programs_conds6", "MC_Programs_lists5", "MC_Programs_sc5"]
    parts = []
    for cfg in cfgs:
        pp = os.path.join(wd, cfg + ".ndjson")
        n = progs.generate_programs(out, cfg, pp, timeout=3000)
        parts.append("%s=%d" % (cfg, n))
        for p in vlib.read_ndjson(pp):
            pool.append({"src": progs.render(p["toks"]), "ast": p["ast"]})
    return pool, ", ".join(parts)


def interesting(p):
    """programs that own jump entries, expression values or several constants are the ones a shared object can confuse"""
    return any(l in p["ast"] for l in ("cond", "condf", "els", "and", "or", "nest", "reap", "app", "appto", "emp", "se"))


def run(out, tier, seed):
    wd = vlib.workdir(out.pid)
    rnd = random.Random(seed)
    pool, desc = program_pool(out, tier, wd)
    hot = [p for p in pool if interesting(p)]
    s2 = schedules(out, "MC_MultiBuild", wd)
    s3 = schedules(out, "MC_MultiBuild_k3", wd)
    n2, n3 = (100, 30) if tier == "quick" else (1500, 400)
    cases = os.path.join(wd, "cases.ndjson")
    n = 0
    inputs = progs.INPUTS
    with open(cases, "w") as f:
        def emit(sch, k, reps):
            nonlocal n
            for _ in range(reps):
                ps = []
                for i in range(k):
                    p = dict(rnd.choice(hot if rnd.random() < 0.7 else pool))
                    inp = rnd.choice(inputs)
                    if inp is not None:
                        p["input"] = inp
                    ps.append(p)
                f.write(json.dumps({"progs": ps, "sched": sch["sched"], "residue": sch["residue"]}, separators=(",", ":")) + "\n")
                n += 1
        for sch in s2:
            emit(sch, 2, n2 * 4)
        for sch in s3:
            emit(sch, 3, n3)
        # the same program twice, and a program next to itself with another input (interned constants, equal jump shapes)
        for sch in s2:
            for _ in range(60 if tier == "quick" else 600):
                p = dict(rnd.choice(hot))
                q = dict(p)
                q["input"] = {"t": "int", "v": 5}
                f.write(json.dumps({"progs": [p, q], "sched": sch["sched"], "residue": sch["residue"]}, separators=(",", ":")) + "\n")
                n += 1
        # constants: every ordered pair of one-literal programs (equal and near-equal values of different types: 2 / 2.0, 0 / 0.0 / $! / (),
        # "s" / :a ...) and random pairs of small constant expressions; interning must not confuse them
        cp = os.path.join(wd, "MC_Programs_consts3.ndjson")
        nc = progs.generate_programs(out, "MC_Programs_consts3", cp)
        consts = [{"src": progs.render(p["toks"]), "ast": p["ast"]} for p in vlib.read_ndjson(cp)]
        atoms = [p for p in consts if len(p["ast"]) == 1]
        plain = [sch for sch in s2 if sch["sched"] == [["B", 0], ["B", 1], ["X", 0], ["X", 1]] or sch["sched"] == [["B", 0], ["X", 0], ["B", 1], ["X", 0], ["X", 1]]]
        for a in atoms:
            for b in atoms:
                for sch in plain:
                    f.write(json.dumps({"progs": [a, b], "sched": sch["sched"], "residue": sch["residue"]}, separators=(",", ":")) + "\n")
                    n += 1
        for _ in range(2000 if tier == "quick" else 40000):
            sch = rnd.choice(s2)
            f.write(json.dumps({"progs": [rnd.choice(consts), rnd.choice(consts)], "sched": sch["sched"], "residue": sch["residue"]}, separators=(",", ":")) + "\n")
            n += 1
    obs = os.path.join(wd, "obs.ndjson")
    st = vlib.run_workers("multi", cases, n, obs, timeout=30)
    fails, states, _ = vlib.validate(out.pid, "V_C20", obs, chunk=1500, workers=1)
    acc = len([s for s in vlib.LAST_STATS if s.get("accepted")])
    out.cov["states"] += states
    out.cov["evaluations"] = n
    out.cov["traces_validated_against_impl"] = 2 * n
    out.cov["distinct_nontrivial"] = acc
    out.cov["exhaustive"] = True
    out.cov["worker_hangs"] = st["hang"]
    out.cov["rule"] = ("every schedule of MC_MultiBuild for K=2 (%d) and K=3 (%d) program slots (all build orders, up to 2 interleaved executions, with and without earlier residue) "
                       "x seeded random programs from the shared corpus (%s) with random inputs, x 2 stores; non-trivial = all programs build and at least one runs to completion in both stores"
                       % (len(s2), len(s3), desc))
    samples = []
    for o in vlib.read_ndjson(obs):
        if o.get("outcome") == "notrun":
            continue
        if o.get("outcome") in ("hang", "abort", "harness_panic"):
            out.fail("NEW", "worker %s during a multi-build schedule" % o.get("outcome"), o, family="worker " + str(o.get("outcome")))
        if len(samples) < 4 and o.get("case", 0) % 997 == 0 and "runs" in o:
            samples.append({"srcs": [p["src"] for p in o["progs"]], "sched": o["sched"],
                            "events": [(e["ev"], e["p"], e.get("status"), e.get("ibase"), e.get("iend")) for e in o["runs"][0]["events"]]})
    out.cov["samples"] = samples
    report(out, fails, list(vlib.read_ndjson(cases)))


def report(out, fails, caselist):
    for fl in fails:
        case = caselist[fl["line"]]
        for fx in fl["fails"]:
            out.fail("NEW", "[%s] %s: %r" % (fx["store"], fx["why"], fl.get("srcs")), {"case": case, "store": fx["store"], "why": fx["why"]},
                     family="[%s] %s" % (fx["store"], fx["why"]))


def replay(out, path):
    case = json.load(open(path))["case"]["case"]
    wd = vlib.workdir(out.pid)
    cases = os.path.join(wd, "cases.ndjson")
    vlib.write_ndjson(cases, [case])
    obs = os.path.join(wd, "obs.ndjson")
    vlib.run_workers("multi", cases, 1, obs, timeout=30)
    fails, states, _ = vlib.validate(out.pid, "V_C20", obs, workers=1)
    out.cov.update({"states": max(out.cov["states"], 1), "transitions": 1, "evaluations": 1, "samples": [case]})
    report(out, fails, [case])
