"""C17 - host extension points are called exactly as documented (DESIGN.md 5/C17).
G: MC_Programs over an alphabet with identifiers at every operand position (apply, apply-to, empty apply, lists, pairs,
   access, conditionals, sequencing, nested expressions).
R: harness `run` under scripted hosts that resolve none / some / all symbols and record every call; resolve on both data
   implementations, external apply (identifiers that the host resolves to externals) on BasicGarnishData.
V: V_Run: the call log (callback, symbol / external number, argument, order, count) and the value equal Eval's."""
import json, os
import vlib
from checks import c01, progs

H_NONE = {"resolve": [], "apply": []}
H_SOME = {"resolve": [{"key": "a", "value": {"t": "int", "v": 9}}], "apply": []}
H_ALL = {"resolve": [{"key": "a", "value": {"t": "int", "v": 9}}, {"key": "b", "value": {"t": "pair", "l": {"t": "sym", "n": "k"}, "r": {"t": "int", "v": 4}}},
                     {"key": "c", "value": {"t": "expr", "j": 0}}], "apply": []}
# externals: a -> external 3 (host answers with 77), b -> external 4 (host echoes its argument), c -> external 5 (host declines)
H_EXT = {"resolve": [{"key": "a", "value": {"t": "ext", "v": 3}}, {"key": "b", "value": {"t": "ext", "v": 4}}, {"key": "c", "value": {"t": "ext", "v": 5}}],
         "apply": [{"key": 3, "value": {"t": "int", "v": 77}}, {"key": 4, "value": {"t": "ARG"}}]}


PAIR = lambda k, v: {"t": "pair", "l": {"t": "sym", "n": k}, "r": v}
IN_UNITVAL = {"t": "list", "v": [PAIR("a", {"t": "unit"}), PAIR("b", {"t": "false"})]}          # keys present whose values are unit / false
IN_CONCAT = {"t": "concat", "l": PAIR("a", {"t": "int", "v": 1}), "r": {"t": "list", "v": [PAIR("b", {"t": "int", "v": 2}), {"t": "int", "v": 7}]}}


def run(out, tier, seed):
    wd = vlib.workdir(out.pid)
    cases = os.path.join(wd, "cases.ndjson")
    ncases = 0
    parts = []
    with open(cases, "w") as f:
        for cfg in (["MC_Programs_host4", "MC_Programs_q3", "MC_Programs_ticks4"] if tier == "quick" else ["MC_Programs_host5", "MC_Programs_t3", "MC_Programs_ticks5"]):
            pp = os.path.join(wd, cfg + ".ndjson")
            n = progs.generate_programs(out, cfg, pp, timeout=3000)
            parts.append("%s=%d" % (cfg, n))
            for p in vlib.read_ndjson(pp):
                if not any(l in ("ida", "idb", "idc", "pfa", "pfb", "sfa", "ifa") for l in p["ast"]):
                    continue
                src = progs.render(p["toks"])
                for host, stores in ((H_NONE, "both"), (H_SOME, "both"), (H_ALL, "both"), (H_EXT, "basic")):
                    for inp in (None, progs.INPUTS[3], IN_UNITVAL, IN_CONCAT):
                        if host is H_ALL and "idc" in p["ast"]:
                            continue     # an expression value from the host would need a body in the model
                        c = {"src": src, "ast": p["ast"], "host": host, "stores": stores}
                        if inp is not None:
                            c["input"] = inp
                        f.write(json.dumps(c, separators=(",", ":")) + "\n")
                        ncases += 1
                        if host is H_SOME and inp in (None, IN_UNITVAL):
                            # a host that compiles once and serves requests from working copies: the copy carries the callbacks
                            c = dict(c, via="clone", stores="simple")
                            f.write(json.dumps(c, separators=(",", ":")) + "\n")
                            ncases += 1
    obs = os.path.join(wd, "obs.ndjson")
    st = vlib.run_workers("run", cases, ncases, obs, timeout=20)
    c01.decide(out, obs, ("C01", "C17"), ncases, ncases, st,
               "every AST with at least one identifier over the host alphabet up to the size bound x 4 scripted hosts (none / some / all / externals) x 2 inputs "
               "(one that already contains the keys a and b); " + ", ".join(parts))
    out.cov["exhaustive"] = True


def replay(out, path):
    c01.replay(out, path, ("C01", "C17"))
