"""C15 - stored values read back unchanged, however the store grows (DESIGN.md 5/C15).
G: Store.tla: BasicGarnishData's single heap cut into blocks with per-block growth policy; TLC explores every interleaving of
   pushes up to the bound for initial sizes 0, 1, 2 and every policy that can make progress (chosen at a block's first use) and
   checks the refinement to independent append-only tables (ReadBack, Layout, AppendOnly).  Every history is replayed.
   Seeded random long histories with default settings (both stores) and with random small settings (Basic).
R: harness `store`: each abstract push becomes a concrete operation of the data interface (numbers, symbols, text, pairs and
   lists over earlier values, instructions, jump entries, symbol names, pushes and pops of registers, input values, frames);
   after EVERY operation every address returned so far is read back.
V: V_C15 steps the abstract tables along the operations and compares every read-back; interning of SimpleGarnishData."""
import json, os, random, zlib
import vlib

INS = ["Add", "Put", "JumpTo", "MakeList", "EndExpression"]


def concrete(block, k, depths, rnd=None):
    """the k-th operation of the history, aimed at `block`; depths = nesting depth of every value added so far
    (compound values refer only to shallow ones, so that values stay small)"""
    pick = (lambda n: rnd.randrange(n)) if rnd else (lambda n: k % n)
    nvals = len(depths)
    shallow = [i for i, d in enumerate(depths) if d <= 1]
    if block == "ins":
        op = {"op": "ins", "i": INS[pick(len(INS))]}
        if pick(2) == 0:
            op["d"] = 7 + k
        return op
    if block == "jmp":
        return {"op": "jump", "v": 100 + k}
    if block == "sym":
        return {"op": "symname", "n": "name%d" % (k % 5)}
    # data block: values and the three stacks live there
    choice = pick(12)
    ref = lambda: {"t": "ref", "i": shallow[pick(len(shallow))]}
    if nvals == 0 or choice == 0:
        return {"op": "val", "d": {"t": "int", "v": [5, 6, 5, 2147483647, 97, 7][pick(6)]}}
    if choice == 1:      # constants that are equal as numbers but not as values: 5 / 5.0, 6 / 6.0
        return {"op": "val", "d": [{"t": "float", "s": "5.0"}, {"t": "int", "v": 5}, {"t": "float", "s": "6.0"}, {"t": "float", "s": "0.5"}, {"t": "int", "v": 6}][pick(5)]}
    if choice == 2:
        return {"op": "val", "d": {"t": "sym", "n": "#%d" % pick(3)}}
    if choice == 3:
        return {"op": "val", "d": {"t": "str", "v": [[97, 98, 99], [], [233, 128512]][pick(3)]}}
    if choice == 4:
        return {"op": "val", "d": {"t": "pair", "l": ref(), "r": ref()}}
    if choice == 5:
        return {"op": "val", "d": {"t": "list", "v": [ref() for _ in range(pick(4))]}}
    if choice == 6:
        return {"op": "val", "d": {"t": "pair", "l": {"t": "sym", "n": "#1"}, "r": ref()}}
    if choice == 7:
        return {"op": "reg", "i": pick(nvals)}
    if choice == 8:
        return {"op": "pushval", "i": pick(nvals)}
    if choice == 9:
        return {"op": "frame", "v": 3 + k}
    if choice == 10:
        return {"op": ["popreg", "popval", "popframe"][pick(3)]}
    return {"op": "val", "d": {"t": ["char", "byte", "ext"][pick(3)], "v": [97, 7, 2][pick(3)]}}


def balance(ops):
    """drop pops the interface leaves to the caller's discipline: a pop of an empty stack, and a pop of an operand that lies
    below the innermost frame (popping a frame drops the operands pushed above it)"""
    regs, frames, stack = 0, [], 0
    out = []
    for op in ops:
        o = op["op"]
        if o == "reg":
            regs += 1
        elif o == "popreg":
            if regs <= (frames[-1] if frames else 0):
                continue
            regs -= 1
        elif o == "frame":
            frames.append(regs)
        elif o == "popframe":
            if not frames:
                continue
            regs = frames.pop()
        elif o == "pushval":
            stack += 1
        elif o == "popval":
            if stack == 0:
                continue
            stack -= 1
        out.append(op)
    return out


def from_history(hist, variant):
    settings = {b: [1, "add", 1] for b in ("ins", "jmp", "sym", "expr", "data", "custom")}
    settings["expr"] = [[0, "add", 1], [1, "mul", 2], [2, "add", 2]][variant % 3]
    settings["custom"] = [0, "add", 1]
    ops, depths = [], []
    for k, h in enumerate(hist):
        if "init" in h:
            settings[h["b"]] = [h["init"], h["kind"], h["k"]]
        op = concrete(h["b"], k + variant, depths)
        ops.append(op)
        note(op, depths)
    return {"settings": settings, "ops": balance(ops)}


def depth_of(d, depths):
    if d.get("t") == "ref":
        return depths[d["i"]]
    if d.get("t") in ("pair", "concat"):
        return 1 + max(depth_of(d["l"], depths), depth_of(d["r"], depths))
    if d.get("t") == "list":
        return 1 + max([depth_of(x, depths) for x in d["v"]] + [0])
    return 0


def note(op, depths):
    if op["op"] == "val":
        depths.append(depth_of(op["d"], depths))
    elif op["op"] == "symname":
        depths.append(0)


def random_history(rnd, n, small):
    ops, depths = [], []
    for k in range(n):
        op = concrete(rnd.choice(["ins", "jmp", "sym", "data", "data", "data", "data"]), k, depths, rnd=rnd)
        ops.append(op)
        note(op, depths)
    case = {"ops": balance(ops)}          # no "settings" key: default settings, both stores
    if small:
        mk = lambda: rnd.choice([[0, "add", 1], [0, "add", 2], [1, "add", 1], [1, "mul", 2], [2, "mul", 2], [2, "add", 1], [3, "mul", 3]])
        case["settings"] = {b: mk() for b in ("ins", "jmp", "sym", "expr", "data", "custom")}
    return case


def run(out, tier, seed):
    wd = vlib.workdir(out.pid)
    rnd = random.Random(seed)
    hist = os.path.join(wd, "hist.ndjson")
    keep = 6 if tier == "quick" else 12

    def sample(p):
        return p if zlib.crc32(json.dumps(p["hist"], sort_keys=True).encode()) % keep == 0 else None
    nh, res = vlib.generate(out.pid, "MC_Store", "MC_Store_q" if tier == "quick" else "MC_Store_t", hist, transform=sample, timeout=6000, xmx="12g")
    out.add_model(res)
    cases = os.path.join(wd, "cases.ndjson")
    n = 0
    nlong = 300 if tier == "quick" else 1500
    longs = [json.dumps(random_history(rnd, rnd.randint(30, 120 if tier == "quick" else 300), small=(i % 2 == 1)), separators=(",", ":")) + "\n" for i in range(nlong)]
    every = max(1, nh * (1 if tier == "quick" else 2) // nlong)
    with open(cases, "w") as f:
        for i, h in enumerate(vlib.read_ndjson(hist)):
            for variant in ((i % 7,) if tier == "quick" else (i % 7, 3 + i % 5)):
                f.write(json.dumps(from_history(h["hist"], variant), separators=(",", ":")) + "\n")
                n += 1
                if n % every == 0 and longs:       # the long histories are spread over the file: they cost far more than the short ones
                    f.write(longs.pop())
                    n += 1
        for l in longs:
            f.write(l)
            n += 1
    obs = os.path.join(wd, "obs.ndjson")
    st = vlib.run_workers("store", cases, n, obs, timeout=60)
    decide(out, obs, n, st, "model: every interleaving of up to %d pushes into 4 blocks x initial sizes {0,1,2} x policies {+1,+2,x2 from non-zero} chosen at first use (refinement to independent tables checked on "
           "every state); replay: %s of the complete histories (%d) as concrete interface operations on BasicGarnishData with exactly those settings, + %d seeded random histories of 30..%d operations "
           "(half with default settings on both stores, half with random small settings on BasicGarnishData); every address returned so far read back after EVERY operation"
           % (4 if tier == "quick" else 5, "1 in %d" % keep if keep > 1 else "all", nh, nlong, 120 if tier == "quick" else 300))
    out.cov["exhaustive"] = True


def decide(out, obs, n, st, rule):
    fails, states, _ = vlib.validate(out.pid, "V_C15", obs, chunk=2500, workers=1)
    out.cov["states"] += states
    out.cov["evaluations"] = n
    out.cov["traces_validated_against_impl"] = n
    out.cov["worker_hangs"] = st["hang"]
    out.cov["rule"] = rule + "; non-trivial = a history in which at least one block had to grow"
    nt = 0
    samples = []
    failing = {fl["line"] for fl in fails}
    origin = {}
    for ln, o in enumerate(vlib.read_ndjson(obs)):
        if o.get("outcome") == "notrun":
            continue
        if o.get("outcome") in ("hang", "abort", "harness_panic"):
            out.fail("NEW", "worker %s during a store history" % o.get("outcome"), o.get("input_case"), family="worker " + str(o.get("outcome")))
            continue
        s = o.get("settings")
        if s is None or len(o.get("ops", [])) > 2:
            nt += 1
        if ln in failing:
            origin[ln] = {"ops": o.get("ops")} if s is None else {"settings": s, "ops": o.get("ops")}
        if len(samples) < 3 and o.get("case", 0) % 9001 == 17:
            samples.append({"settings": s, "ops": o.get("ops")[:12]})
    out.cov["distinct_nontrivial"] = nt
    out.cov["samples"] = samples
    for fl in fails:
        for f in fl["fails"]:
            why = "[%s] %s" % (f["store"], f["why"])
            out.fail("NEW", why, {"why": why, "store_case": origin.get(fl["line"])}, family=why.split(" (")[0])


def replay(out, path):
    case = json.load(open(path))["case"].get("store_case")
    if not case:
        raise vlib.ToolError("the replay file carries no store_case: re-run the full check")
    wd = vlib.workdir(out.pid)
    cases = os.path.join(wd, "cases.ndjson")
    vlib.write_ndjson(cases, [case])
    obs = os.path.join(wd, "obs.ndjson")
    st = vlib.run_workers("store", cases, 1, obs, timeout=60)
    decide(out, obs, 1, st, "replay of one recorded case")
