"""C03 - the compile pipeline is total: no input panics or hangs it (DESIGN.md 5/C03).
G: MC_TokenSeq (every token-class sequence up to L, each class with and without separating blank / annotation), Lexer.tla's
   strings over the reduced alphabet, the program corpus, repeated patterns x10..x3000, seeded random character soups.
R: harness `compile`: real lex, parse, build (both stores) per input in a watchdog-supervised worker, with the deterministic
   step counters of the cfg-guarded hooks (parser parent-walk iterations, builder work-stack pops).
V: V_Compile!C03: every stage returned Ok or Err (no panic / abort / hang) and the counters are within 4n^2+64 / 16m+64."""
import json, os
import vlib
from checks import compilecorpus as cc


def run(out, tier, seed):
    wd = vlib.workdir(out.pid)
    cases, n, desc = cc.build_corpus(out, tier, seed, wd, dump=False)
    obs, st = cc.observe(out, cases, n, wd)
    fails = cc.validate(out, obs)
    out.cov["evaluations"] = n
    out.cov["traces_validated_against_impl"] = n
    out.cov["exhaustive"] = True
    reached = {"lex": 0, "parse": 0, "build": 0}
    samples = []
    for o in vlib.read_ndjson(obs):
        if "stage" in o:
            reached[o["stage"]] = reached.get(o["stage"], 0) + 1
        if len(samples) < 5 and o.get("case", 0) % 7919 == 11 and "stage" in o:
            samples.append({"src": (o.get("src") or "".join(chr(c) for c in o.get("input", [])))[:80], "stage": o["stage"], "status": o["status"], "walk": o.get("walk")})
    out.cov["distinct_nontrivial"] = reached.get("parse", 0) + reached.get("build", 0)
    out.cov["inputs_ending_at_stage"] = reached
    out.cov["samples"] = samples
    out.cov["worker_hangs"] = st["hang"]
    out.cov["rule"] = "inputs by generator: " + desc + " + repeated patterns + random soups; non-trivial = inputs that get past the lexer (reach parse or build)"
    for fl in fails:
        for f in fl["fails"]:
            if f["prop"] != "C03":
                continue
            src = fl.get("src", "")
            out.fail(fl.get("kf", "NEW"), "%s: %r" % (f["why"], src[:120]), {"src": src, "why": f["why"]}, family=f["why"])


def replay(out, path):
    case = json.load(open(path))["case"]
    wd = vlib.workdir(out.pid)
    cases = os.path.join(wd, "cases.ndjson")
    vlib.write_ndjson(cases, [{"src": case["src"], "dump": False}])
    obs, st = cc.observe(out, cases, 1, wd)
    fails = cc.validate(out, obs)
    out.cov.update({"states": max(out.cov["states"], 1), "transitions": 1, "evaluations": 1, "samples": [case]})
    for fl in fails:
        for f in fl["fails"]:
            if f["prop"] == "C03":
                out.fail(fl.get("kf", "NEW"), f["why"], case)
