"""C04 - an accepted program accounts for every token, in order (DESIGN.md 5/C04).
Corpus: the compile corpora of C03 (token-class sequences, lexer strings, programs) restricted by the formula to inputs that
parse AND build; harness `compile` with dumps (tokens, node table, instruction metadata).
V: V_Compile!C04Tree (proper binary tree: child/parent links agree, no sharing, no cycle, everything live reachable; in-order walk
   in source order covering every significant token) and C04Attr (every value / operator node owns >= 1 emitted instruction)."""
import json, os
import vlib
from checks import compilecorpus as cc

PROP = "C04"


def run(out, tier, seed, prop=None):
    prop = prop or PROP
    wd = vlib.workdir(out.pid)
    cases, n, desc = cc.build_corpus(out, tier, seed, wd, dump=True, kinds=("tokseq", "lexer", "programs", "soup"))
    obs, st = cc.observe(out, cases, n, wd)
    fails = cc.validate(out, obs)
    accepted = len([s for s in vlib.LAST_STATS if s.get("accepted")])
    out.cov["evaluations"] = n
    out.cov["traces_validated_against_impl"] = accepted
    out.cov["distinct_nontrivial"] = accepted
    out.cov["exhaustive"] = True
    samples = []
    for o in vlib.read_ndjson(obs):
        if len(samples) < 4 and o.get("status") == "ok" and o.get("stage") == "build" and "nodes" in o and len(o["nodes"]) >= 4 and o.get("case", 0) % 311 == 0:
            b = o["builds"][0]
            samples.append({"src": o.get("src") or "".join(chr(c) for c in o.get("input", [])), "nodes": [(x["d"], x["l"], x["r"], x["p"]) for x in o["nodes"]],
                            "instructions": [(i["op"], i["d"]) for i in b["ins"][b["ibase"]:]], "metadata": b["meta"]})
    out.cov["samples"] = samples
    out.cov["rule"] = "inputs by generator: " + desc + " + random soups; non-trivial = inputs that lex, parse AND build on both stores (the only ones the property speaks about)"
    for fl in fails:
        for f in fl["fails"]:
            if f["prop"] != prop:
                continue
            src = fl.get("src", "")
            kf = f.get("kf") or fl.get("kf", "NEW")      # attribution failures carry their own matcher result, tree failures the case-level one
            out.fail(kf, "%s%s: %r" % (f["why"], (" (" + f["d"] + ")") if "d" in f else "", src[:120]), {"src": src, "why": f["why"], "node_definition": f.get("d")},
                     family=f["why"] + ((" (" + f["d"] + ")") if "d" in f else ""))


def replay(out, path):
    case = json.load(open(path))["case"]
    wd = vlib.workdir(out.pid)
    cases = os.path.join(wd, "cases.ndjson")
    vlib.write_ndjson(cases, [{"src": case["src"], "dump": True}])
    obs, st = cc.observe(out, cases, 1, wd)
    fails = cc.validate(out, obs)
    out.cov.update({"states": max(out.cov["states"], 1), "transitions": 1, "evaluations": 1, "samples": [case]})
    for fl in fails:
        for f in fl["fails"]:
            if f["prop"] == PROP:
                out.fail(f.get("kf") or fl.get("kf", "NEW"), f["why"], case)
