"""C12 - ordering comparisons agree with the natural order (DESIGN.md 5/C12).
G: MC_Order builds the operand universe (numeric boundary lattice with mixed int/float neighbours, NaN, infinities, all short
   strings and byte lists incl. prefixes and the empty one, chars, bytes, every other type) and checks that NatOrder is a strict
   total order on each ordered kind (one state per triple).
R: harness `eq` with the four comparison instructions (+ Equal) over all ordered pairs on both stores.
V: V_C12: pointwise agreement with CmpV and the relational laws on the observed results."""
import json, os
import vlib

INS = ["LessThan", "LessThanOrEqual", "GreaterThan", "GreaterThanOrEqual", "Equal"]


def run(out, tier, seed):
    wd = vlib.workdir(out.pid)
    upath = os.path.join(wd, "universe.ndjson")
    n, res = vlib.generate(out.pid, "MC_Order", "MC_Order_" + ("small" if tier == "quick" else "large"), upath)
    out.add_model(res)
    vals = next(vlib.read_ndjson(upath))["vals"]
    cases = os.path.join(wd, "cases.ndjson")
    block = 4
    items = [{"ins": INS, "vals": vals, "rows": list(range(i, min(i + block, len(vals))))} for i in range(0, len(vals), block)]
    vlib.write_ndjson(cases, items)
    obs = os.path.join(wd, "obs.ndjson")
    st = vlib.run_workers("eq", cases, len(items), obs, timeout=120, shards=vlib.NCPU)
    decide(out, obs, vals, st)
    out.cov["exhaustive"] = True


def decide(out, obs, vals, st):
    fails, states, _ = vlib.validate(out.pid, "V_C12", obs, chunk=2, workers=1, parallel=vlib.NCPU)
    out.cov["states"] += states
    npairs = len(vals) ** 2
    out.cov["evaluations"] = npairs * 5 * 2 * 2
    out.cov["traces_validated_against_impl"] = npairs * 2
    true_cells = 0
    samples = []
    for o in vlib.read_ndjson(obs):
        if o.get("outcome") == "notrun":
            continue
        if o.get("outcome") in ("hang", "abort", "harness_panic"):
            out.fail("NEW", "worker %s in the comparison matrix" % o.get("outcome"), {"rows": o.get("input_case", {}).get("rows")})
            continue
        m = o.get("simple", {})
        if m.get("status") == "ok":
            true_cells += sum(row.count("T") for row in m["LessThan"]["ab"])
            if len(samples) < 3:
                i = o["rows"][0]
                j = (i * 5 + 2) % len(o["vals"])
                samples.append({"left": o["vals"][i], "right": o["vals"][j], "lt,le,gt,ge": [m[k]["ab"][0][j] for k in INS[:4]]})
    out.cov["distinct_nontrivial"] = true_cells
    out.cov["samples"] = samples
    out.cov["rule"] = ("all ordered pairs of the %d-value universe of MC_Order x {<, <=, >, >=, ==} x two address variants x two stores; non-trivial = ordered pairs for which the real "
                       "code answers a < b with true (strictly ordered operands)") % len(vals)
    for fl in fails:
        for f in fl["fails"]:
            why = "[%s] %s (%s cells in this block)" % (f["store"], f["why"], f.get("n", 1))
            out.fail(f.get("kf", "NEW"), why, {"store": f["store"], "why": f["why"], "left": f.get("l"), "right": f.get("r"), "got": f.get("got"), "expected": f.get("expected")},
                     family="[%s] %s" % (f["store"], f["why"]))


def replay(out, path):
    case = json.load(open(path))["case"]
    wd = vlib.workdir(out.pid)
    vals = [case["left"], case["right"]]
    cases = os.path.join(wd, "cases.ndjson")
    vlib.write_ndjson(cases, [{"ins": INS, "vals": vals, "rows": [0, 1]}])
    obs = os.path.join(wd, "obs.ndjson")
    st = vlib.run_workers("eq", cases, 1, obs, timeout=60)
    decide(out, obs, vals, st)
    out.cov["states"] = max(out.cov["states"], 1)
    out.cov["transitions"] = 1
