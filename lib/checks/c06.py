"""C06 - evaluation is stack-balanced on every path (DESIGN.md 5/C06).
static : Balance.tla - TLC explores ALL paths of every instruction stream recorded from the real build()
         (abstract state (pc, depth); loops reach a fixpoint).
dynamic: TraceVM.tla - every real execution is stepped against VM.tla with the machine's stack-discipline invariants
         evaluated after every instruction and the depths checked at completion; V_Run checks the depths the stores report."""
import json, os
import vlib
from checks import c01, progs


def run(out, tier, seed):
    wd = vlib.workdir(out.pid)
    cases, ncases, nprogs, desc = c01.corpus(out, tier, seed, wd, trace=True, light=True)
    obs = os.path.join(wd, "obs.ndjson")
    st = vlib.run_workers("run", cases, ncases, obs, timeout=20)
    evaluate(out, obs, ncases, nprogs, st, desc)


def evaluate(out, obs, ncases, nprogs, st, desc):
    # static, all paths
    bf, bstates, _ = vlib.validate(out.pid, "Balance", obs, chunk=1500, workers=1, check_count=False)
    # dynamic, every step
    tf, tstates, _ = vlib.validate(out.pid, "TraceVM", obs, chunk=1500, workers=1, check_count=False)
    out.cov["states"] += bstates + tstates
    out.cov["abstract_states_static"] = bstates
    out.cov["trace_states_dynamic"] = tstates
    c01.decide(out, obs, ("C06",), ncases, nprogs, st, "static: all paths of every built instruction stream (Balance); dynamic: every executed step (TraceVM); " + desc)
    out.cov["exhaustive"] = True
    # a run that VM.tla does not explain for another reason than the stack discipline (a value, a jump, a host call) is DRIFT between
    # the instruction-level model and the code: measured and shown, never an alarm of this property (C01 decides values by Eval)
    trace = [fl for fl in tf if fl.get("prop") == "TRACE"]
    out.cov["model_drift"] = len(trace)
    out.cov["model_drift_examples"] = [{"src": fl.get("src"), "store": fl.get("store"), "at": fl.get("at"), "instruction": fl.get("ins"), "known": fl.get("kf")} for fl in trace[:5]]
    failing = {fl["line"] for fl in bf + tf if fl.get("prop") == "C06"}
    origin = {}
    if failing:
        for ln, o in enumerate(vlib.read_ndjson(obs)):
            if ln in failing:
                origin[ln] = {k: o[k] for k in ("src", "ast", "input", "host", "stores") if k in o}
    for fl in bf + tf:
        if fl.get("prop") != "C06":
            continue
        why = "C06 %s [%s] %s" % ("static" if "depth" in fl else "dynamic", fl.get("store"), fl.get("why"))
        out.fail(fl.get("kf", "NEW"), why, dict({k: fl.get(k) for k in ("src", "store", "why", "pc", "depth", "at", "model")}, run_case=origin.get(fl["line"])), family=why)


def replay(out, path):
    case = json.load(open(path))["case"]
    rc = dict(case.get("run_case") or {"src": case["src"]})
    rc["trace"] = True
    if "ast" not in rc:
        raise vlib.ToolError("the replay file carries no AST for the program: re-run the full check")
    wd = vlib.workdir(out.pid)
    cases = os.path.join(wd, "cases.ndjson")
    vlib.write_ndjson(cases, [rc])
    obs = os.path.join(wd, "obs.ndjson")
    st = vlib.run_workers("run", cases, 1, obs, timeout=20)
    evaluate(out, obs, 1, 1, st, "replay of one recorded case")
