"""C06 - evaluation is stack-balanced on every path (DESIGN.md 5/C06).
static : Balance.tla - TLC explores ALL paths of every instruction stream recorded from the real build()
         (abstract state (pc, depth); loops reach a fixpoint).
dynamic: TraceVM.tla - every real execution is stepped against VM.tla with the machine's stack-discipline invariants
         evaluated after every instruction and the depths checked at completion; V_Run checks the depths the stores report."""
import json, os
import vlib
from checks import c01, progs


def run(out, tier, seed):
    wd = vlib.workdir(out.pid)
    cases, ncases, nprogs, desc = c01.corpus(out, tier, seed, wd, trace=True, light=True)
    obs = os.path.join(wd, "obs.ndjson")
    st = vlib.run_workers("run", cases, ncases, obs, timeout=20)
    # static, all paths
    bf, bstates, _ = vlib.validate(out.pid, "Balance", obs, chunk=1500, workers=1, check_count=False)
    # dynamic, every step
    tf, tstates, _ = vlib.validate(out.pid, "TraceVM", obs, chunk=1500, workers=1, check_count=False)
    out.cov["states"] += bstates + tstates
    out.cov["abstract_states_static"] = bstates
    out.cov["trace_states_dynamic"] = tstates
    c01.decide(out, obs, ("C06",), ncases, nprogs, st, "static: all paths of every built instruction stream (Balance); dynamic: every executed step (TraceVM); " + desc)
    out.cov["exhaustive"] = True
    for fl in bf + tf:
        if fl.get("prop") != "C06":
            continue
        why = "C06 %s [%s] %s" % ("static" if "depth" in fl else "dynamic", fl.get("store"), fl.get("why"))
        out.fail(fl.get("kf", "NEW"), why, {k: fl.get(k) for k in ("src", "store", "why", "pc", "depth", "at", "model")}, family=why)


def replay(out, path):
    raise vlib.ToolError("re-run `bin/check C06 quick`; cases are regenerated deterministically")
