"""C13 - lexing is lossless, positions exact, nothing skipped (DESIGN.md 5/C13).
G: Lexer.tla (implementation-shaped model of process_char / internal_next / lex) enumerates every string up to N over the
   reduced alphabet (one representative per character class + quote, backslash, newline, CR, tab, 2- and 4-byte characters),
   with the tokens or error it predicts; -simulate draws random longer strings.
R: harness `lex`: the real lex() on every string.
V: V_C13: LexerProps!Verdict (lossless, no empty token, positions, longest match / classification, nothing skipped, blank line
   separates) on every successful observation; model/real disagreement is counted as drift, never an alarm."""
import json, os
import vlib


def run(out, tier, seed):
    wd = vlib.workdir(out.pid)
    cases = os.path.join(wd, "cases.ndjson")
    n = 0
    parts = []
    with open(cases, "w") as f:
        def sink_cfg(cfg, **kw):
            nonlocal n
            seen = set()

            def tr(p):
                k = tuple(p["input"])
                if k in seen:
                    return None
                if kw.get("cap") and len(seen) >= kw["cap"]:
                    return None
                if kw.get("minlen") and len(k) < kw["minlen"]:
                    return None
                seen.add(k)
                return p
            pp = os.path.join(wd, cfg + ".ndjson")
            cnt, res = vlib.generate(out.pid, "Lexer", cfg, pp, transform=tr, simulate=kw.get("simulate"), depth=kw.get("depth"), seed=kw.get("seed"),
                                     workers=(1 if kw.get("simulate") else None), timeout=3000)
            out.add_model(res)
            parts.append("%s=%d" % (cfg, cnt))
            with open(pp) as g:
                for line in g:
                    f.write(line)
                    n += 1
        if tier == "quick":
            sink_cfg("MC_Lexer_q3")
            for focus in ("MC_Lexer_num5", "MC_Lexer_str5", "MC_Lexer_ws5", "MC_Lexer_ops4"):
                sink_cfg(focus)
            sink_cfg("MC_Lexer_sim", simulate=60, depth=45, seed=seed, minlen=8, cap=1500)
        else:
            sink_cfg("MC_Lexer_t3")
            sink_cfg("MC_Lexer_t4")
            sink_cfg("MC_Lexer_t5")
            for focus in ("MC_Lexer_num5", "MC_Lexer_str5", "MC_Lexer_ws5", "MC_Lexer_ops4"):
                sink_cfg(focus)
            sink_cfg("MC_Lexer_sim", simulate=800, depth=45, seed=seed, minlen=8, cap=30000)
    obs = os.path.join(wd, "obs.ndjson")
    st = vlib.run_workers("lex", cases, n, obs, timeout=15)
    decide(out, obs, n, st, "all strings up to the length bound of each generator config over its alphabet (exhaustive) + seeded random longer strings: " + ", ".join(parts))
    out.cov["exhaustive"] = True


def decide(out, obs, n, st, rule):
    fails, states, _ = vlib.validate(out.pid, "V_C13", obs, chunk=8000, workers=1)
    out.cov["states"] += states
    out.cov["evaluations"] = n
    out.cov["traces_validated_against_impl"] = n
    out.cov["model_drift"] = len(vlib.LAST_STATS)
    accepted = 0
    multi = 0
    samples = []
    for o in vlib.read_ndjson(obs):
        if o.get("status") == "ok":
            accepted += 1
            if len(o.get("toks", [])) >= 2:
                multi += 1
            if len(samples) < 4 and o.get("case", 0) % 2503 == 5:
                samples.append({"input": "".join(chr(c) for c in o["input"]), "tokens": [("".join(chr(c) for c in t["text"]), t["ty"], t["row"], t["col"]) for t in o["toks"]]})
        if o.get("outcome") == "notrun":
            continue
        if o.get("outcome") in ("hang", "abort", "harness_panic"):
            out.fail("NEW", "worker %s while lexing" % o.get("outcome"), o.get("input_case"))
    out.cov["accepted_inputs"] = accepted
    out.cov["distinct_nontrivial"] = multi
    out.cov["samples"] = samples
    out.cov["rule"] = rule + "; non-trivial = inputs the real lexer ACCEPTS with at least two tokens (the formulas speak only about accepted inputs)"
    for fl in fails:
        txt = "".join(chr(c) for c in fl["input"])
        out.fail(fl.get("kf", "NEW"), "%s: %r" % (fl["why"], txt), {"input": fl["input"], "text": txt, "why": fl["why"], "tokens": fl.get("toks")}, family=fl["why"])


def replay(out, path):
    case = json.load(open(path))["case"]
    wd = vlib.workdir(out.pid)
    cases = os.path.join(wd, "cases.ndjson")
    vlib.write_ndjson(cases, [{"input": case["input"]}])
    obs = os.path.join(wd, "obs.ndjson")
    st = vlib.run_workers("lex", cases, 1, obs)
    decide(out, obs, 1, st, "replay of one input")
    out.cov["states"] = max(out.cov["states"], 1)
    out.cov["transitions"] = 1
