"""C16 - lists keep their order and find every key (DESIGN.md 5/C16).
G: MC_Lists: (model) TLC checks that the open-addressing table of SimpleGarnishData and the sorted association block of
   BasicGarnishData, as modelled in Lists.tla, find exactly what the abstract list finds, for every list of cells up to the bound
   and every address assignment; (cases) every list up to the bound over the item kinds of C16 with distinct adversarial key
   symbols, three address paddings, and concatenations with a second list.  Seeded random larger lists (5..40 items) with keys
   that all collide modulo the length, the smallest / largest u64, sorted and reverse-sorted.
R: harness `list`: build through start_list / add_to_list / end_list on both stores; data-level getters and runtime instructions.
V: V_C16: TLC compares every answer with the abstract list of Lists.tla."""
import json, os, random
import vlib

U64 = (1 << 64) - 1


def random_lists(rnd, count):
    out = []
    for _ in range(count):
        n = rnd.randint(5, 40)
        nk = rnd.randint(1, n)
        style = rnd.choice(["collide", "extremes", "sorted", "reverse", "random"])
        if style == "collide":        # every key is the same residue modulo the list length
            r = rnd.randrange(n)
            keys = [r + n * k for k in rnd.sample(range(0, 4 * n), nk)]
        elif style == "extremes":
            pool = [0, 1, U64, U64 - 1, 1 << 63, (1 << 63) - 1, (1 << 32), (1 << 32) - 1] + [rnd.randrange(U64) for _ in range(n)]
            keys = rnd.sample(pool, min(nk, len(pool)))
        elif style in ("sorted", "reverse"):
            keys = sorted(rnd.sample(range(0, 10 * n), nk), reverse=(style == "reverse"))
        else:
            keys = [rnd.randrange(U64) for _ in range(nk)]
        keys = list(dict.fromkeys(keys))
        items = [{"t": "pair", "l": {"t": "sym", "n": "#%d" % k}, "r": {"t": "int", "v": 100 + i}} for i, k in enumerate(keys)]
        plain = [{"t": "int", "v": 5}, {"t": "str", "v": [116]}, {"t": "sym", "n": "#2"}, {"t": "pair", "l": {"t": "int", "v": 1}, "r": {"t": "int", "v": 15}},
                 {"t": "list", "v": [{"t": "int", "v": 77}]}, {"t": "unit"}]
        absent = [k + 1 for k in keys[:3] if k + 1 not in keys and k + 1 <= U64] + [k + n for k in keys[:2] if k + n not in keys and k + n <= U64]
        if absent:      # a nested list item with a key of its own: it is not a key of the outer list
            plain.append({"t": "list", "v": [{"t": "int", "v": 77}, {"t": "pair", "l": {"t": "sym", "n": "#%d" % absent[0]}, "r": {"t": "int", "v": 55}}]})
            items.insert(rnd.randrange(len(items) + 1), plain[-1])
        while len(items) < n:
            items.insert(rnd.randrange(len(items) + 1), rnd.choice(plain))
        syms = ["#%d" % k for k in keys[:12] + absent]
        cut = rnd.randint(0, len(items))
        if rnd.random() < 0.5:
            out.append({"items": items[:cut], "second": items[cut:], "concat": True, "pad": rnd.randint(0, 3), "syms": syms, "style": style})
        else:
            out.append({"items": items, "second": [], "pad": rnd.randint(0, 3), "syms": syms, "style": style})
    return out


def run(out, tier, seed):
    wd = vlib.workdir(out.pid)
    rnd = random.Random(seed)
    # (1) the implementation-shaped models against the abstract list
    _, res = vlib.generate(out.pid, "MC_Lists", "MC_Lists_model" if tier == "quick" else "MC_Lists_model4", os.path.join(wd, "none.ndjson"), timeout=3000)
    out.add_model(res)
    model_states = res.distinct
    # (2) replay cases
    cases = os.path.join(wd, "cases.ndjson")
    n, res = vlib.generate(out.pid, "MC_Lists", "MC_Lists_q" if tier == "quick" else "MC_Lists_t", cases, timeout=3000)
    out.add_model(res)
    sampled = ""
    if tier != "quick":
        # every list of up to 2 items, and a seeded third of the 3-item lists (all of them is ~400k cases / an hour)
        keep, n = [], 0
        with open(cases) as f:
            for line in f:
                if line.count('"t":') and len(json.loads(line)["items"]) >= 3 and rnd.random() > 0.34:
                    continue
                keep.append(line)
        n = len(keep)
        open(cases, "w").writelines(keep)
        sampled = " [3-item lists: a seeded 34% sample]"
    rl = random_lists(rnd, 1500 if tier == "quick" else 20000)
    # copies: the list is cloned into a second data object (traits::helpers::clone_data) and the COPY is questioned - every list that
    # holds a list, and a seeded share of the others
    copies = []
    with open(cases) as f:
        for line in f:
            c = json.loads(line)
            if any(i.get("t") == "list" or (i.get("t") == "pair" and i["r"].get("t") == "list") for i in c.get("items", [])) or rnd.random() < 0.1:
                copies.append(dict(c, copy=True))
    for c in rl[::4]:
        copies.append(dict(c, copy=True))
    with open(cases, "a") as f:
        for c in rl + copies:
            f.write(json.dumps(c, separators=(",", ":")) + "\n")
    total = n + len(rl) + len(copies)
    obs = os.path.join(wd, "obs.ndjson")
    st = vlib.run_workers("list", cases, total, obs, timeout=30)
    decide(out, obs, total, st, "model: %d lists of cells (all address assignments) checked against the abstract list for both look-up structures; replay: every list up to %d items over 17 item kinds "
           "(7 plain, 10 keyed by adversarial symbols)%s with distinct keys x 3 paddings x {no, 1-item, 2-item} second operand of a concatenation (%d cases, exhaustive) + %d seeded random lists of 5..40 items "
           "(keys colliding modulo the length / extreme u64 / sorted / reverse-sorted) + copies of every list that holds a list and of a share of the others (clone_data into a second data object); x 2 stores" % (model_states, 2 if tier == "quick" else 3, sampled, n, len(rl)))
    out.cov["exhaustive"] = True


def decide(out, obs, total, st, rule):
    fails, states, _ = vlib.validate(out.pid, "V_C16", obs, chunk=3000, workers=1)
    out.cov["states"] += states
    out.cov["evaluations"] = total
    out.cov["traces_validated_against_impl"] = 2 * total
    out.cov["worker_hangs"] = st["hang"]
    out.cov["rule"] = rule + "; non-trivial = a list with at least one keyed and one unkeyed item, or a concatenation"
    nt = 0
    samples = []
    failing = {fl["line"] for fl in fails}
    origin = {}
    for ln, o in enumerate(vlib.read_ndjson(obs)):
        if o.get("outcome") == "notrun":
            continue
        if o.get("outcome") in ("hang", "abort", "harness_panic"):
            out.fail("NEW", "worker %s on a list" % o.get("outcome"), o.get("input_case"), family="worker " + str(o.get("outcome")))
            continue
        items = o.get("items", [])
        keyed = [i for i in items if i.get("t") == "pair" and i["l"].get("t") == "sym"]
        if (keyed and len(keyed) < len(items)) or o.get("second"):
            nt += 1
        if ln in failing:
            origin[ln] = {k: o[k] for k in ("items", "second", "concat", "pad", "syms", "copy") if k in o}
        if len(samples) < 4 and o.get("case", 0) % 5003 == 11:
            samples.append({"items": items, "second": o.get("second"), "len": [r.get("len") for r in o["runs"]]})
    out.cov["distinct_nontrivial"] = nt
    out.cov["samples"] = samples
    for fl in fails:
        for f in fl["fails"]:
            kf = f.get("kf", "NEW")
            why = "[%s %s%s] %s" % (f["store"], f["level"], " of a copy made by clone_data" if (origin.get(fl["line"]) or {}).get("copy") else "", f["why"])
            out.fail(kf, why, {"why": why, "list_case": origin.get(fl["line"])}, family=why)


def replay(out, path):
    case = json.load(open(path))["case"].get("list_case")
    if not case:
        raise vlib.ToolError("the replay file carries no list_case: re-run the full check")
    wd = vlib.workdir(out.pid)
    cases = os.path.join(wd, "cases.ndjson")
    vlib.write_ndjson(cases, [case])
    obs = os.path.join(wd, "obs.ndjson")
    st = vlib.run_workers("list", cases, 1, obs, timeout=30)
    decide(out, obs, 1, st, "replay of one recorded case")
