"""C11 - equality is structural and an equivalence relation (DESIGN.md 5/C11).
G: MC_Equality builds the value universe (atoms of every listed kind, pairs, lists, concatenations, nested values, near-miss
   mutants) and checks that the specification's StructEq is an equivalence on the law core (one state per triple).
R: harness `eq`: every ordered pair, values built twice per store (fresh addresses in reverse creation order / shared), the
   Equal and NotEqual instructions executed above a sentinel register.
V: V_C11: pointwise agreement with StructEq, NotEqual = negation, nothing left on the operand stack, and reflexivity,
   symmetry, transitivity of the OBSERVED relation."""
import json, os
import vlib


def run(out, tier, seed):
    wd = vlib.workdir(out.pid)
    upath = os.path.join(wd, "universe.ndjson")
    n, res = vlib.generate(out.pid, "MC_Equality", "MC_Equality_" + ("small" if tier == "quick" else "large"), upath)
    out.add_model(res)
    u = next(vlib.read_ndjson(upath))
    vals, core = u["vals"], u["core"]
    cases = os.path.join(wd, "cases.ndjson")
    block = 6
    items = [{"ins": ["Equal", "NotEqual"], "vals": vals, "rows": list(range(i, min(i + block, len(vals)))), "laws": False} for i in range(0, len(vals), block)]
    items.append({"ins": ["Equal", "NotEqual"], "vals": core, "rows": list(range(len(core))), "laws": True})
    vlib.write_ndjson(cases, items)
    obs = os.path.join(wd, "obs.ndjson")
    st = vlib.run_workers("eq", cases, len(items), obs, timeout=120, shards=vlib.NCPU)
    decide(out, obs, vals, core, st)
    out.cov["exhaustive"] = True


def decide(out, obs, vals, core, st):
    fails, states, _ = vlib.validate(out.pid, "V_C11", obs, chunk=2, workers=1, parallel=vlib.NCPU)
    out.cov["states"] += states
    npairs = len(vals) ** 2 + len(core) ** 2
    out.cov["evaluations"] = npairs * 2 * 2 * 2      # Equal+NotEqual, two address variants, two stores
    out.cov["traces_validated_against_impl"] = npairs * 2
    eqpairs = 0
    samples = []
    for o in vlib.read_ndjson(obs):
        if o.get("outcome") == "notrun":
            continue
        if o.get("outcome") in ("hang", "abort", "harness_panic"):
            out.fail("NEW", "worker %s in the equality matrix" % o.get("outcome"), {"rows": o.get("input_case", {}).get("rows")})
            continue
        m = o.get("basic", {})
        if m.get("status") == "ok":
            for r, row in enumerate(m["Equal"]["ab"]):
                eqpairs += sum(1 for j, x in enumerate(row) if x == "T" and j != o["rows"][r])
            if len(samples) < 3:
                i = o["rows"][0]
                samples.append({"left": o["vals"][i], "right": o["vals"][(i * 7 + 3) % len(o["vals"])], "Equal": m["Equal"]["ab"][0][(i * 7 + 3) % len(o["vals"])]})
    out.cov["distinct_nontrivial"] = eqpairs
    out.cov["samples"] = samples
    out.cov["rule"] = ("all ordered pairs of the %d-value universe of MC_Equality (+ the %d-value law core for the relational laws), each compared by Equal and NotEqual in two "
                       "address variants on both stores; non-trivial = off-diagonal pairs the real code reports EQUAL (different spellings/addresses of one value)") % (len(vals), len(core))
    for fl in fails:
        for f in fl["fails"]:
            why = "[%s] %s (%s such pairs in this block)" % (f["store"], f["why"], f.get("n", 1))
            out.fail(f.get("kf", "NEW"), why, {"store": f["store"], "why": f["why"], "left": f.get("l"), "right": f.get("r"), "got": f.get("got")}, family="[%s] %s" % (f["store"], f["why"]))


def replay(out, path):
    case = json.load(open(path))["case"]
    wd = vlib.workdir(out.pid)
    vals = [case["left"], case["right"]]
    cases = os.path.join(wd, "cases.ndjson")
    vlib.write_ndjson(cases, [{"ins": ["Equal", "NotEqual"], "vals": vals, "rows": [0, 1], "laws": True}])
    obs = os.path.join(wd, "obs.ndjson")
    st = vlib.run_workers("eq", cases, 1, obs, timeout=60)
    decide(out, obs, vals, vals, st)
    out.cov["states"] = max(out.cov["states"], 1)
    out.cov["transitions"] = 1
