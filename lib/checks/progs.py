"""Shared plumbing of the program-level checks (C01, C06, C07, C10, C17, C18, C19, C20):
TLC-generated ASTs (MC_Programs) -> source text -> harness `run` -> V_Run."""
import json, os, random
import vlib

INPUTS = [
    None,
    {"t": "int", "v": 5},
    {"t": "pair", "l": {"t": "sym", "n": "a"}, "r": {"t": "int", "v": 1}},
    {"t": "list", "v": [{"t": "pair", "l": {"t": "sym", "n": "a"}, "r": {"t": "int", "v": 1}},
                        {"t": "pair", "l": {"t": "sym", "n": "b"}, "r": {"t": "int", "v": 2}}]},
    {"t": "list", "v": [{"t": "int", "v": 7}, {"t": "int", "v": 8}]},
]


def render(toks, sep=" ; "):
    """Token texts -> source text: single blanks between tokens; the implicit list operator has no text."""
    out = []
    for t in toks:
        if t == "":
            continue
        out.append(t)
    s = " ".join(out)
    if sep != " ; ":
        s = s.replace(" ; ", sep)
    return s


def generate_programs(out, cfg, path, simulate=None, depth=None, seed=None, timeout=1800, min_nodes=0, cap=None, module="MC_Programs"):
    """Runs MC_Programs with the given cfg; writes {ast, toks} lines; returns count.
    Under -simulate TLC evaluates Emit on every successor it generates, so far more than `simulate` programs
    appear; min_nodes / cap select the larger ones and bound the count (deterministically for a given seed)."""
    seen = set()

    def tr(p):
        key = tuple(p["ast"])
        if key in seen or len(key) < min_nodes or (cap is not None and len(seen) >= cap):
            return None
        seen.add(key)
        return p
    n, res = vlib.generate(out.pid, module, cfg, path, simulate=simulate, depth=depth, seed=seed, timeout=timeout, transform=tr,
                           workers=(1 if simulate else None))
    out.add_model(res)
    return n


def nontrivial(ast):
    """a program is non-trivial if it composes at least two constructs (operators / brackets)"""
    atoms = {"n0", "n1", "n2", "n5", "nmax", "f05", "f2", "f15", "f0", "f1", "f5", "unit", "tru", "fls", "syma", "symb", "symc", "strs", "stre", "strab", "byab", "bys", "val", "ida", "idb", "idc"}
    return sum(1 for l in ast if l not in atoms) >= 2
