"""C08 - undefined operand combinations yield unit, after offering them to the host (DESIGN.md 5/C08).
G: MC_Defer enumerates instruction x ordered pair (or single) of value representatives x callback {absent, declining, accepting};
   Defer.tla's Defined partitions the matrix (frozen transcription of the runtime's dispatch arms).
R: harness `op`: operands placed through the GarnishData API, one instruction executed on both stores with a recording host.
V: V_C08: defer protocol on the undefined part (exactly one call, arguments in source order, unit / host value, one result left)."""
import json, os
import vlib

ACCEPT = {"t": "int", "v": 4242}


def to_case(p):
    c = {"ins": p["ins"], "l": p["l"], "unary": p["unary"], "mode": p["mode"], "via": p.get("via", "direct")}
    if not p["unary"]:
        c["r"] = p["r"]
    if p["mode"] == "decline":
        c["host"] = {"resolve": [], "apply": []}
    elif p["mode"] == "accept":
        c["host"] = {"resolve": [], "apply": [], "defer": ACCEPT}
    return c


def run(out, tier, seed):
    wd = vlib.workdir(out.pid)
    cases = os.path.join(wd, "cases.ndjson")
    n, res = vlib.generate(out.pid, "MC_Defer", "MC_Defer_" + tier, cases, transform=to_case)
    out.add_model(res)
    obs = os.path.join(wd, "obs.ndjson")
    st = vlib.run_workers("op", cases, n, obs, timeout=20)
    decide(out, obs, n, st)
    out.cov["exhaustive"] = True


def decide(out, obs, n, st):
    fails, states, _ = vlib.validate(out.pid, "V_C08", obs, chunk=5000, workers=1)
    out.cov["states"] += states
    out.cov["evaluations"] = n
    out.cov["traces_validated_against_impl"] = 2 * n
    out.cov["distinct_nontrivial"] = len(vlib.LAST_STATS)
    out.cov["rule"] = ("the finite matrix instruction x ordered pair (single for unary) of value representatives x callback mode, enumerated completely by MC_Defer; "
                       "non-trivial = the operand types are in the UNDEFINED part of Defer!Defined (the cases the property speaks about)")
    samples = []
    for o in vlib.read_ndjson(obs):
        if len(samples) < 4 and o.get("case", 0) % 3001 == 7:
            samples.append({k: o.get(k) for k in ("ins", "l", "r", "mode")} | {"results": [(r.get("status"), r.get("regs"), r.get("log")) for r in o.get("runs", [])]})
        if o.get("outcome") == "notrun":
            continue
        if o.get("outcome") in ("hang", "abort", "harness_panic"):
            out.fail("NEW", "worker %s on an instruction" % o.get("outcome"), o)
    out.cov["samples"] = samples
    for fl in fails:
        for f in fl["fails"]:
            lt, rt = fl["l"].get("t"), fl["r"].get("t")
            why = "%s(%s, %s) mode=%s%s [%s]: %s %s" % (fl["ins"], lt, rt, fl["mode"], " in a working copy of the store" if fl.get("via") == "clone" else "", f["store"], f["why"], (f.get("msg") or "")[:80])
            out.fail(f.get("kf", "NEW"), why, {"ins": fl["ins"], "l": fl["l"], "r": fl["r"], "mode": fl["mode"], "via": fl.get("via", "direct"), "store": f["store"], "why": f["why"], "msg": f.get("msg", "")},
                     family="%s [%s%s] %s %s" % (fl["ins"], f["store"], " copy" if fl.get("via") == "clone" else "", f["why"], (f.get("msg") or "")[:50]))


def replay(out, path):
    case = json.load(open(path))["case"]
    wd = vlib.workdir(out.pid)
    cases = os.path.join(wd, "cases.ndjson")
    p = {"ins": case["ins"], "l": case["l"], "r": case.get("r"), "unary": case.get("r", {}).get("t") == "unit" and case["ins"] in
         ("Opposite", "AbsoluteValue", "BitwiseNot", "AccessLeftInternal", "AccessRightInternal", "AccessLengthInternal", "EmptyApply"), "mode": case["mode"], "via": case.get("via", "direct")}
    vlib.write_ndjson(cases, [to_case(p)])
    obs = os.path.join(wd, "obs.ndjson")
    st = vlib.run_workers("op", cases, 1, obs)
    decide(out, obs, 1, st)
    out.cov["states"] = max(out.cov["states"], 1)
    out.cov["transitions"] = 1
