"""Shared plumbing of the garnish-core verification driver (bin/check).

Nothing in here decides a property.  The verdicts come from TLC evaluating TLA+ formulas
(spec/*.tla) over behaviour observed from the real code by the Rust harness (harness/).
This module only: builds the harness against /repo's working tree, runs TLC (mode G:
generate behaviours from a model; mode V: validate recorded observations), supervises the
harness workers (per-case watchdog, panic/abort capture), matches failures against
known_findings.json, and writes the evidence file.

Exit-code discipline (DESIGN.md 3.3): 0 held / 1 violation (with VIOLATION line) / 2 tool error.
"""
import json, os, re, select, shutil, subprocess, sys, threading, time

ROOT = os.path.dirname(os.path.dirname(os.path.abspath(__file__)))
SPEC = os.path.join(ROOT, "spec")
HARNESS = os.path.join(ROOT, "harness")
WORK = os.path.join(ROOT, ".work")
TLA_CP = "/opt/veriftools/tla/tla2tools.jar:/opt/veriftools/tla/CommunityModules-deps.jar"      # what the `tlc` wrapper on PATH uses
REPLAYS = os.path.join(ROOT, "replays")
EVIDENCE = os.path.join(ROOT, "evidence")
TLA_JAR = "/opt/veriftools/tla/tla2tools.jar"
NCPU = os.cpu_count() or 8


LAST_STATS = []


class ToolError(Exception):
    pass


def log(*a):
    print(*a, flush=True)


def workdir(pid):
    d = os.path.join(WORK, pid)
    os.makedirs(d, exist_ok=True)
    return d


def clean_workdir(pid):
    d = os.path.join(WORK, pid)
    shutil.rmtree(d, ignore_errors=True)
    os.makedirs(d, exist_ok=True)
    return d


# --------------------------------------------------------------------------- harness build

_built = None


def build_harness():
    """cargo build of the harness against the CURRENT working tree of /repo, hooks on."""
    global _built
    if _built:
        return _built
    lock = os.path.join(HARNESS, "Cargo.lock")
    if not os.path.exists(lock):
        shutil.copy("/repo/Cargo.lock", lock)
    env = dict(os.environ, CARGO_NET_OFFLINE="true")
    env.pop("RUSTFLAGS", None)
    t = time.time()
    p = subprocess.run(["cargo", "build", "--offline", "--quiet"], cwd=HARNESS, env=env,
                       stdout=subprocess.PIPE, stderr=subprocess.STDOUT, text=True)
    if p.returncode != 0:
        raise ToolError("cargo build of the harness failed:\n" + p.stdout[-4000:])
    _built = os.path.join(HARNESS, "target", "debug", "gverif")
    log("[build] harness built in %.1fs" % (time.time() - t))
    return _built


# --------------------------------------------------------------------------- TLC

class TlcResult:
    def __init__(self):
        self.rc = None
        self.out = ""
        self.generated = 0
        self.distinct = 0
        self.replay = []      # parsed JSON payloads of <<"REPLAY", "...">> lines
        self.fails = []       # parsed JSON payloads of <<"FAIL", "...">> lines
        self.notes = []       # <<"NOTE", ...>> lines verbatim
        self.coverage = {}    # action name -> (distinct, generated)
        self.invariant_violated = False
        self.error = None
        self.wall = 0.0


_STR = re.compile(r'^<<"(REPLAY|FAIL|STAT)", "(.*)">>$')


def _parse_tlc_line(line, res, replay_sink=None):
    m = _STR.match(line)
    if m:
        try:
            payload = json.loads(json.loads('"' + m.group(2) + '"'))
        except Exception as e:  # pragma: no cover
            res.error = "unparsable %s line: %s (%s)" % (m.group(1), line[:200], e)
            return
        if m.group(1) == "REPLAY":
            if replay_sink is not None:
                replay_sink(payload)
            else:
                res.replay.append(payload)
        elif m.group(1) == "FAIL":
            res.fails.append(payload)
        else:
            res.notes.append(payload)
        return
    if line.startswith('<<"NOTE"'):
        res.notes.append(line)
        return
    m = re.match(r"^(\d+) states generated, (\d+) distinct states found", line)
    if m:
        res.generated, res.distinct = int(m.group(1)), int(m.group(2))
        return
    m = re.match(r"^<(\w+) line \d+, col \d+ to line \d+, col \d+ of module (\w+)>: (\d+):(\d+)", line)
    if m:
        res.coverage[m.group(1)] = (int(m.group(3)), int(m.group(4)))
        return
    if line.startswith("Error:") or "Exception" in line and "at " not in line[:4]:
        if "Invariant" in line and "is violated" in line:
            res.invariant_violated = True
        res.error = (res.error or "") + line + "\n"
    if "is violated" in line:
        res.invariant_violated = True


def run_tlc(pid, module, cfg=None, env=None, workers=None, simulate=None, depth=None, seed=None,
            timeout=3600, xmx="6g", coverage=True, replay_sink=None, tag=None, deque=False, extra=None, xss=None):
    """Run TLC on spec/<module>.tla with spec/<cfg>.cfg; returns TlcResult.
    env: IOEnv variables for the spec (paths to observation files etc.)."""
    cfg = cfg or module
    tag = tag or cfg
    meta = os.path.join(workdir(pid), "tlc_" + tag)
    shutil.rmtree(meta, ignore_errors=True)
    # Thread stacks: deep recursive operators need far more than the default.  The stack of the MAIN thread (which evaluates
    # the invariants on initial states, i.e. all of mode V) is fixed by the java launcher from a -Xss on the COMMAND LINE;
    # JAVA_TOOL_OPTIONS only reaches threads created later - so java is started directly instead of through the `tlc` wrapper.
    ss = xss or "512m"
    jvm = ["-Xss" + ss, "-Xmx" + xmx, "-XX:+UseParallelGC", "-XX:CICompilerCount=2", "-XX:ParallelGCThreads=2"]
    if deque:
        jvm.append("-Dtlc2.tool.queue.IStateQueue=StateDeque")
    e = dict(os.environ)
    e.pop("JAVA_TOOL_OPTIONS", None)
    if env:
        e.update({k: str(v) for k, v in env.items()})
    cmd = ["timeout", str(timeout), "java"] + jvm + ["-cp", TLA_CP, "tlc2.TLC"]
    cmd += ["-metadir", meta, "-cleanup", "-noGenerateSpecTE", "-config", os.path.join(SPEC, cfg + ".cfg")]
    cmd += ["-workers", str(workers or 1)]
    if coverage and not simulate:
        cmd += ["-coverage", "1"]
    if simulate:
        cmd += ["-simulate", "num=%d" % simulate]
        if depth:
            cmd += ["-depth", str(depth)]
    if seed is not None:
        cmd += ["-seed", str(seed)]
    if extra:
        cmd += extra
    cmd += [os.path.join(SPEC, module + ".tla")]
    res = TlcResult()
    t = time.time()
    p = subprocess.Popen(cmd, cwd=SPEC, env=e, stdout=subprocess.PIPE, stderr=subprocess.STDOUT, text=True, errors="replace")
    tail = []
    for line in p.stdout:
        line = line.rstrip("\n")
        _parse_tlc_line(line, res, replay_sink)
        if not line.startswith('<<"REPLAY"') and not line.startswith('<<"FAIL"'):
            tail.append(line)
            if len(tail) > 400:
                del tail[:200]
    p.wait()
    res.rc = p.returncode
    res.out = "\n".join(tail)
    res.wall = time.time() - t
    shutil.rmtree(meta, ignore_errors=True)
    if res.rc == 124:
        raise ToolError("TLC timed out after %ss on %s/%s" % (timeout, module, cfg))
    # TLC: 0 ok, 12 invariant violated, 10/11/13.. other violations, >=150 errors
    if res.rc not in (0, 12):
        msg = "\n".join(l for l in res.out.splitlines() if not l.startswith(("Parsing file", "Semantic processing", "Linting of")))
        raise ToolError("TLC failed (rc=%s) on %s/%s:\n%s" % (res.rc, module, cfg, msg[-2500:]))
    return res


# --------------------------------------------------------------------------- harness workers

def _shard_worker(binary, subcmd, cases_path, lo, hi, out_path, timeout, extra_args, stats, env=None):
    """Run cases [lo, hi) of cases_path through `gverif subcmd`, one answer line per case.
    Watchdog: no answer within `timeout` s => kill, record {"outcome":"hang"}, restart after it.
    Premature exit (abort / stack overflow) => record {"outcome":"abort"}."""
    pos = lo
    with open(out_path, "w") as out:
        while pos < hi:
            # enough hangs / aborts have been seen to decide the run: the remaining cases are not executed (each would cost a
            # watchdog period); they are recorded as "notrun" and get no verdict
            if stats["hang"] + stats["abort"] >= HANG_BUDGET:
                out.write(json.dumps({"case": pos, "outcome": "notrun"}) + "\n")
                pos += 1
                continue
            p = subprocess.Popen([binary, subcmd, cases_path, str(pos), str(hi)] + list(extra_args),
                                 stdout=subprocess.PIPE, stderr=subprocess.DEVNULL, env=env)
            fd = p.stdout.fileno()
            buf = b""
            dead = False
            while pos < hi and not dead:
                r, _, _ = select.select([fd], [], [], timeout)
                if not r:
                    p.kill()
                    p.wait()
                    out.write(json.dumps({"case": pos, "outcome": "hang", "budget_s": timeout}) + "\n")
                    stats["hang"] += 1
                    pos += 1
                    dead = True
                    break
                chunk = os.read(fd, 1 << 20)
                if not chunk:
                    p.wait()
                    if pos < hi:
                        out.write(json.dumps({"case": pos, "outcome": "abort", "rc": p.returncode}) + "\n")
                        stats["abort"] += 1
                        pos += 1
                    dead = True
                    break
                buf += chunk
                while True:
                    i = buf.find(b"\n")
                    if i < 0:
                        break
                    out.write(buf[:i + 1].decode("utf8", "replace"))
                    buf = buf[i + 1:]
                    pos += 1
            if not dead:
                p.stdout.close()
                p.wait()


HANG_BUDGET = int(os.environ.get("VERIF_HANG_BUDGET", "48"))


def run_workers(subcmd, cases_path, n_cases, out_path, shards=None, timeout=10, extra_args=(), env=None):
    """Replay n_cases lines of cases_path into the real code; writes one observation per line to out_path
    (same order).  Returns counters {hang, abort}."""
    binary = build_harness()
    shards = max(1, min(shards or NCPU, (n_cases + 199) // 200 or 1))
    stats = {"hang": 0, "abort": 0}
    # the file is cut into more pieces than there are workers and the workers take the next piece when they are done:
    # cases of very different cost (long random histories at the end of a file) do not leave one worker with all of them
    npieces = max(shards, min(shards * 8, (n_cases + 199) // 200 or 1))
    bounds = [(n_cases * i // npieces, n_cases * (i + 1) // npieces) for i in range(npieces)]
    parts = [out_path + ".part%d" % i for i in range(npieces)]
    todo = list(range(npieces))
    qlock = threading.Lock()
    wenv = dict(os.environ, **env) if env else None

    def pull():
        while True:
            with qlock:
                if not todo:
                    return
                i = todo.pop(0)
            _shard_worker(binary, subcmd, cases_path, bounds[i][0], bounds[i][1], parts[i], timeout, extra_args, stats, wenv)
    ths = []
    for _ in range(shards):
        th = threading.Thread(target=pull)
        th.start()
        ths.append(th)
    for th in ths:
        th.join()
    # concatenate in order; records written by the supervisor (hang / abort) get the original case attached
    with open(out_path, "w") as out, open(cases_path) as cf:
        for part in parts:
            with open(part) as f:
                for line in f:
                    case_line = cf.readline()
                    if line.startswith('{"case": ') and '"outcome": "' in line[:60]:
                        rec = json.loads(line)
                        try:
                            rec["input_case"] = json.loads(case_line)
                            if "src" in rec["input_case"]:
                                rec["src"] = rec["input_case"]["src"]
                        except Exception:
                            pass
                        line = json.dumps(rec) + "\n"
                    out.write(line)
            os.remove(part)
    return stats


def write_ndjson(path, items):
    n = 0
    with open(path, "w") as f:
        for it in items:
            f.write(json.dumps(it, separators=(",", ":")) + "\n")
            n += 1
    return n


def read_ndjson(path):
    with open(path) as f:
        for line in f:
            line = line.strip()
            if line:
                yield json.loads(line)


def count_lines(path):
    n = 0
    with open(path, "rb") as f:
        for _ in f:
            n += 1
    return n


# --------------------------------------------------------------------------- mode V: TLC over observations

# validators that decide the records the supervisor writes for a worker that hung or died (known-finding signatures live
# there); for every other validator the Python driver reports those records itself and TLC never sees them
OUTCOME_AWARE = {"V_C07", "V_C14", "V_C15", "V_C16", "V_C18", "V_C19", "V_C20", "V_Compile"}


def validate(pid, module, obs_path, cfg=None, chunk=20000, parallel=None, env=None, timeout=3600, xmx="3g", workers=2, check_count=True, deque=False):
    """Mode V: TLC evaluates the property-layer formula of `module` on every line of obs_path.
    The file is cut into chunks, one TLC process per chunk (the chunks are independent: every case is
    an initial state).  Returns (fails, states, chunks).  Each fail is the JSON printed by the spec:
    {"c": index in chunk, "why": ..., "kf": known-finding id or "NEW", ...} with "line" = global index."""
    n = count_lines(obs_path)
    if n == 0:
        return [], 0, 0
    wd = workdir(pid)
    chunks = []          # (path, original line numbers of the cases in it)
    with open(obs_path) as f:
        k = 0
        buf, idx = [], []
        for ln, line in enumerate(f):
            if line.startswith('{"case": ') and '"outcome": "notrun"' in line[:60]:
                continue          # not executed (hang budget exhausted): no verdict
            if module not in OUTCOME_AWARE and line.startswith('{"case": ') and '"outcome": "' in line[:60]:
                continue          # written by the supervisor (hang / abort): this validator has no rule for it, the driver reports it
            buf.append(line)
            idx.append(ln)
            if len(buf) >= chunk:
                cp = os.path.join(wd, "v_%s_%d.ndjson" % (module, k))
                open(cp, "w").writelines(buf)
                chunks.append((cp, idx, len(buf)))
                k += 1
                buf, idx = [], []
        if buf:
            cp = os.path.join(wd, "v_%s_%d.ndjson" % (module, k))
            open(cp, "w").writelines(buf)
            chunks.append((cp, idx, len(buf)))
    if not chunks:
        return [], 0, 0
    parallel = parallel or max(1, min(len(chunks), NCPU // workers, 12))
    fails, states = [], [0]
    global LAST_STATS
    LAST_STATS = []
    errors = []
    lockv = threading.Lock()
    sem = threading.Semaphore(parallel)

    def one(cp, base, cnt, idx):
        with sem:
            if errors:          # a chunk already failed with a tool error: the run cannot give a verdict, do not evaluate the rest
                return
            try:
                e = dict(env or {})
                e["OBS"] = cp
                r = run_tlc(pid, module, cfg=cfg, env=e, workers=workers, timeout=timeout, xmx=xmx, coverage=False,
                            tag="%s_v%d" % (module, idx), deque=deque)
                with lockv:
                    if r.invariant_violated or r.rc != 0:
                        errors.append("TLC reported a violation/err in validator %s chunk %d:\n%s" % (module, idx, r.out[-2000:]))
                    if "Model checking completed" not in r.out:
                        errors.append("validator %s chunk %d did not complete:\n%s" % (module, idx, r.out[-1500:]))
                    if check_count and r.distinct != cnt:
                        errors.append("validator %s chunk %d evaluated %d of %d cases\n%s" % (module, idx, r.distinct, cnt, r.out[-1500:]))
                    states[0] += r.distinct
                    LAST_STATS.extend(n for n in r.notes if isinstance(n, dict))
                    for fl in r.fails:
                        fl["line"] = base[fl.get("c", 1) - 1]
                        fails.append(fl)
            except ToolError as ex:
                with lockv:
                    errors.append(str(ex))
            finally:
                try:
                    os.remove(cp)
                except OSError:
                    pass

    ths = [threading.Thread(target=one, args=(cp, base, cnt, i)) for i, (cp, base, cnt) in enumerate(chunks)]
    for th in ths:
        th.start()
    for th in ths:
        th.join()
    if errors:
        raise ToolError(errors[0])
    fails.sort(key=lambda f: f["line"])
    return fails, states[0], len(chunks)


# --------------------------------------------------------------------------- known findings, verdict, evidence

def load_known_findings():
    p = os.path.join(ROOT, "known_findings.json")
    if not os.path.exists(p):
        return []
    return json.load(open(p))["findings"]


class Outcome:
    """Collects what a check covered and what failed; prints the verdict lines and writes evidence."""

    def __init__(self, pid, tier, seed):
        self.pid, self.tier, self.seed = pid, tier, seed
        self.t0 = time.time()
        self.cov = {"evaluations": 0, "distinct_nontrivial": 0, "rule": "", "samples": [], "states": 0, "transitions": 0,
                    "traces_validated_against_impl": 0, "model_drift": 0, "exhaustive": False}
        self.assumptions = []
        self.violations = []      # (why, case)
        self.known = {}           # kf id -> [count, example]
        self.stale = []
        self.kf = {f["id"]: f for f in load_known_findings() if f["property"] == pid or pid in f.get("also", [])}

    def add_model(self, res):
        self.cov["states"] += res.distinct
        self.cov["transitions"] += res.generated

    def fail(self, kf, why, case, family=None):
        """Register a failing case; kf is the known-finding id named by the TLA+ matcher, or 'NEW'.
        family: short grouping key used only to order the report (one example per family first)."""
        self.families = getattr(self, "families", {})
        fam = family or re.sub(r"-?\d+", "N", why)[:160]
        ent = self.kf.get(kf)
        if ent is not None and ent.get("status") == "open":
            c = self.known.setdefault(kf, [0, case])
            c[0] += 1
            kfam = self.__dict__.setdefault("known_families", {}).setdefault(kf, {})
            e = kfam.setdefault(fam, [0, case])
            e[0] += 1
        else:
            self.violations.append((why if kf in ("NEW", "", None) else "%s (matches %s, which is not an open finding)" % (why, kf), case))
            self.families.setdefault(fam, []).append(len(self.violations) - 1)

    def finish(self, extra=None):
        os.makedirs(EVIDENCE, exist_ok=True)
        os.makedirs(REPLAYS, exist_ok=True)
        for kf, (n, ex) in sorted(self.known.items()):
            log("KNOWN-FINDING: property=%s %s: %s [%d case(s) this run, e.g. %s]" % (
                self.pid, kf, self.kf[kf]["what"], n, json.dumps(ex, ensure_ascii=False)[:300]))
        if os.environ.get("VERIF_SHOW_KNOWN"):
            for kf, fm in getattr(self, "known_families", {}).items():
                for fam, (n, ex) in sorted(fm.items(), key=lambda kv: -kv[1][0])[:40]:
                    log("   known %s: %6d x %s   e.g. %s" % (kf, n, fam, json.dumps(ex, ensure_ascii=False)[:160]))
        paths = []
        fams = getattr(self, "families", {})
        if self.violations:
            log("---- %d violating cases in %d families:" % (len(self.violations), len(fams)))
            for fam, idx in sorted(fams.items(), key=lambda kv: -len(kv[1]))[:60]:
                log("   %6d x %s" % (len(idx), fam))
        # one example per family first, then the rest
        order = [idx[0] for _, idx in sorted(fams.items(), key=lambda kv: -len(kv[1]))]
        seen = set(order)
        order += [i for i in range(len(self.violations)) if i not in seen]
        self.violations = [self.violations[i] for i in order]
        is_replay = getattr(self, "is_replay", False)
        for i, (why, case) in enumerate(self.violations[:20]):
            path = os.path.join(REPLAYS, "%s_%s_%d.json" % (self.pid, "replayed" if is_replay else self.tier, i))
            json.dump({"property": self.pid, "why": why, "case": case}, open(path, "w"), indent=1, ensure_ascii=False)
            paths.append(path)
            log("VIOLATION property=%s replay=%s" % (self.pid, path))
            log("   why: %s" % why)
            log("   case: %s" % json.dumps(case, ensure_ascii=False)[:600])
        if len(self.violations) > 20:
            log("   ... and %d more violating cases" % (len(self.violations) - 20))
        cov = dict(self.cov)
        cov["known_findings_met"] = {k: v[0] for k, v in self.known.items()}
        if extra:
            cov.update(extra)
        if not cov["samples"]:
            cov["samples"] = ["(no sample recorded)"]
        ev = {"property_id": self.pid, "tier": self.tier, "seed": self.seed, "level": "model_checking", "coverage": cov,
              "assumptions": self.assumptions, "wall_s": round(time.time() - self.t0, 1), "violations": len(self.violations)}
        if not is_replay:
            json.dump(ev, open(os.path.join(EVIDENCE, self.pid + ".json"), "w"), indent=1, ensure_ascii=False)
        log("[%s %s] evaluations=%d nontrivial=%d states=%d traces_validated=%d drift=%d known=%s violations=%d wall=%.0fs" % (
            self.pid, self.tier, cov["evaluations"], cov["distinct_nontrivial"], cov["states"], cov["traces_validated_against_impl"],
            cov["model_drift"], cov["known_findings_met"], len(self.violations), time.time() - self.t0))
        return 1 if self.violations else 0


# --------------------------------------------------------------------------- mode G helper

def generate(pid, module, cfg, cases_path, workers=None, timeout=3600, env=None, simulate=None, depth=None, seed=None, xmx="6g", transform=None, coverage=False):
    """Mode G: run TLC on the model; every <<"REPLAY", json>> line becomes one line of cases_path.
    Returns (number of cases, TlcResult)."""
    n = [0]
    with open(cases_path, "w") as f:
        def sink(payload):
            if transform:
                payload = transform(payload)
                if payload is None:
                    return
            f.write(json.dumps(payload, separators=(",", ":")) + "\n")
            n[0] += 1
        # -coverage 1 makes TLC several times slower and memory-hungry on the large functional-core specs: off unless asked for
        res = run_tlc(pid, module, cfg=cfg, env=env, workers=workers or NCPU, timeout=timeout, replay_sink=sink,
                      simulate=simulate, depth=depth, seed=seed, xmx=xmx, coverage=coverage)
    if res.rc != 0 or res.invariant_violated:
        raise ToolError("model %s/%s: TLC reports a violated invariant or error in mode G:\n%s" % (module, cfg, res.out[-3000:]))
    return n[0], res
